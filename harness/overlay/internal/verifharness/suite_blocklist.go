//go:build verif

package main

import (
	"bytes"
	"context"
	"encoding/binary"
	"errors"
	"time"
	"fmt"
	"net"
	"strings"

	"github.com/cenkalti/rain/v2/internal/blocklist"
	"github.com/cenkalti/rain/v2/internal/blocklist/stree"
	"github.com/cenkalti/rain/v2/internal/resolver"
)

// Suite blocklist (C18): the real blocklist.Reload / Blocked / Len and the real segment tree.
//
// ops (one Blocklist per case):
//   reload text=<hex> [long=<n>]   obs: ok:<n> | err:toolong | err:novalid | err:other
//        the text is the hex bytes; long=<n> appends "\n" and n bytes '7' (a line for the scanner limit)
//   blocked ips=<u32,...>           obs: one 0/1 per address
//   blockedv6                       obs: 0/1 for 2001:db8::1 (no IPv4 form)
//   len                             obs: <n>
//   resolve hosts=<u32|L,...>       obs: per host 1 = refused as blocked, 0 = resolved, e = other error
//        (resolver.Resolve, what trackers and web seeds go through; a number is a literal IPv4 host, L is the
//        host name "localhost", resolved from the hosts file to 127.0.0.1)
//   stree ranges=<lo>-<hi>,... q=<u32,...>   obs: one 0/1 per query (fresh stree.Stree: AddRange*, Build, Contains)

func init() {
	register(&Suite{Name: "blocklist", Gen: genBlocklist, Exec: execBlocklist})
}

func u32ip(v uint32) net.IP {
	b := make([]byte, 4)
	binary.BigEndian.PutUint32(b, v)
	return net.IP(b)
}

func execBlocklist(ops []string) []string {
	bl := blocklist.New()
	var obs []string
	for _, op := range ops {
		m := kv(op)
		switch m["_"] {
		case "reload":
			text := unhex(m["text"])
			if n := atoi(m["long"]); n > 0 {
				text = append(append(text, '\n'), bytes.Repeat([]byte{'7'}, n)...)
			}
			n, err := bl.Reload(bytes.NewReader(text))
			switch {
			case err == nil:
				obs = append(obs, fmt.Sprintf("ok:%d", n))
			case strings.Contains(err.Error(), "token too long"):
				obs = append(obs, "err:toolong")
			case strings.Contains(err.Error(), "no valid rules"):
				obs = append(obs, "err:novalid")
			default:
				obs = append(obs, "err:other")
			}
		case "blocked":
			var sb strings.Builder
			for _, s := range commaList(m["ips"]) {
				v := uint32(atou(s))
				// alternate between the 4-byte and the 16-byte form of the address
				ip := u32ip(v)
				if v%2 == 1 {
					ip = ip.To16()
				}
				sb.WriteString(b01(bl.Blocked(ip)))
			}
			if sb.Len() == 0 {
				sb.WriteString("-")
			}
			obs = append(obs, sb.String())
		case "blockedv6":
			obs = append(obs, b01(bl.Blocked(net.ParseIP("2001:db8::1"))))
		case "len":
			obs = append(obs, fmt.Sprint(bl.Len()))
		case "resolve":
			var sb strings.Builder
			for _, h := range commaList(m["hosts"]) {
				host := "localhost"
				if h != "L" {
					host = u32ip(uint32(atou(h))).String()
				}
				_, _, err := resolver.Resolve(context.Background(), net.JoinHostPort(host, "6881"), 2*time.Second, bl)
				switch {
				case err == nil:
					sb.WriteString("0")
				case errors.Is(err, resolver.ErrBlocked):
					sb.WriteString("1")
				default:
					sb.WriteString("e")
				}
			}
			if sb.Len() == 0 {
				sb.WriteString("-")
			}
			obs = append(obs, sb.String())
		case "stree":
			var t stree.Stree
			for _, r := range commaList(m["ranges"]) {
				p := strings.Split(r, "-")
				t.AddRange(stree.ValueType(atou(p[0])), stree.ValueType(atou(p[1])))
			}
			t.Build()
			var sb strings.Builder
			for _, s := range commaList(m["q"]) {
				sb.WriteString(b01(t.Contains(stree.ValueType(atou(s)))))
			}
			if sb.Len() == 0 {
				sb.WriteString("-")
			}
			obs = append(obs, sb.String())
		default:
			obs = append(obs, "unknown-op")
		}
	}
	return obs
}

// ---- generator ----

type blRule struct {
	ip     uint32
	prefix int
}

func (r blRule) first() uint32 {
	if r.prefix == 0 {
		return 0
	}
	return r.ip & (0xFFFFFFFF << (32 - uint(r.prefix)))
}
func (r blRule) last() uint32 {
	if r.prefix == 0 {
		return 0xFFFFFFFF
	}
	return r.first() | ^(uint32(0xFFFFFFFF) << (32 - uint(r.prefix)))
}
func (r blRule) String() string {
	return fmt.Sprintf("%d.%d.%d.%d/%d", r.ip>>24, (r.ip>>16)&255, (r.ip>>8)&255, r.ip&255, r.prefix)
}

var blMalformed = []string{
	"010.0.0.1/8", "10.0.0.256/8", "10.0.0/8", "10.0.0.0.0/8", "10.0.0.1/33", "10.0.0.1/", "10.0.0.1/-1",
	"10.0.0.1/+8", "10.0.0.1 /8", "10.0.0.1/ 8", "::1/128", "::ffff:10.0.0.1/120", "2001:db8::/32",
	"10.0.0.1/8/9", "10.0.0.1", "10.0.0.1-10.0.0.9", "10.0.0.1./8", ".10.0.0.1/8", "10..0.1/8", "10.0.0.1/8x",
	"x10.0.0.1/8", "10.0.0.1%eth0/8", "fe80::1%eth0/64", "/8", "/", "10.0.0.01/8", "10.0.0.1/99999999999",
	"0x0a.0.0.1/8", "10.0.0.1/32 # trailing", "١٠.0.0.1/8", "1.2.3.4/0x8", "1.2.3.4:80/8", "00.0.0.0/0",
}

// valid but unusual spellings: (text, rule)
var blOdd = []struct {
	text string
	r    blRule
}{
	{"10.0.0.1/08", blRule{0x0A000001, 8}}, {"10.0.0.1/000032", blRule{0x0A000001, 32}},
	{"0.0.0.0/0", blRule{0, 0}}, {"255.255.255.255/32", blRule{0xFFFFFFFF, 32}},
	{"255.255.255.255/0", blRule{0xFFFFFFFF, 0}}, {"128.0.0.0/1", blRule{0x80000000, 1}},
	{"0.0.0.0/1", blRule{0, 1}}, {"255.255.255.254/31", blRule{0xFFFFFFFE, 31}}, {"0.0.0.0/32", blRule{0, 32}},
}

var blSpaces = []string{" ", "\t", "  ", "\v", "\f", "\u00a0", "\u0085", "\u2003", "\u3000", " \t ", "\u1680", "\u2028", "\u205f", "\u200a", "\u202f"}

func genBlocklistText(r *Rng, base uint32, window uint32) (string, []blRule) {
	var lines []string
	var rules []blRule
	nl := r.Range(0, 10)
	for i := 0; i < nl; i++ {
		var line string
		switch k := r.Intn(100); {
		case k < 55: // structured rule in the window
			var rl blRule
			if len(rules) > 0 && r.Chance(15) {
				rl = rules[r.Intn(len(rules))] // duplicate
			} else {
				rl = blRule{base + uint32(r.Intn(int(window))), r.Pick(32, 32, 31, 30, 30, 29, 28, 27, 26, 24)}
				if r.Chance(8) {
					rl.prefix = r.Pick(0, 1, 8, 16, 20)
				}
			}
			line = rl.String()
			rules = append(rules, rl)
		case k < 62:
			o := blOdd[r.Intn(len(blOdd))]
			line = o.text
			rules = append(rules, o.r)
		case k < 80:
			line = blMalformed[r.Intn(len(blMalformed))]
			if r.Chance(10) {
				line = string(r.Bytes(r.Range(1, 6)))
				line = strings.NewReplacer("\n", "x", "\r", "y").Replace(line)
				// random bytes could by chance be blank/comment/valid; the model decides, not the generator
				if _, _, err := net.ParseCIDR(strings.TrimSpace(line)); err == nil {
					line = "zz"
				}
			}
		case k < 90:
			line = "#" + []string{"", " comment", "10.0.0.0/8", " 1.2.3.4/32"}[r.Intn(4)]
		default:
			line = ""
		}
		if r.Chance(25) {
			line = blSpaces[r.Intn(len(blSpaces))] + line
		}
		if r.Chance(25) {
			line = line + blSpaces[r.Intn(len(blSpaces))]
		}
		if r.Chance(15) {
			line += "\r"
		}
		lines = append(lines, line)
	}
	text := strings.Join(lines, "\n")
	if r.Chance(50) && len(lines) > 0 {
		text += "\n"
	}
	return text, rules
}

func blQueries(r *Rng, rules []blRule, base, window uint32, extra int) string {
	seen := map[uint32]bool{}
	var qs []string
	add := func(v uint32) {
		if !seen[v] {
			seen[v] = true
			qs = append(qs, fmt.Sprint(v))
		}
	}
	for _, rl := range rules {
		f, l := rl.first(), rl.last()
		for _, v := range []uint32{f - 1, f, f + 1, l - 1, l, l + 1} {
			add(v)
		}
	}
	add(0)
	add(0xFFFFFFFF)
	add(base - 1)
	add(base + window)
	for i := 0; i < extra; i++ {
		add(base + uint32(r.Intn(int(window)+8)) - 4)
	}
	return joinOrDash(qs)
}

func genBlocklist(r *Rng, n int, tier string) []Case {
	var cases []Case
	id := 0
	newCase := func(ops []string) {
		id++
		cases = append(cases, Case{ID: fmt.Sprintf("blocklist-%d", id), Ops: ops})
	}
	// (1) exhaustive: every list of <= L CIDR rules inside an aligned window of 8 addresses (15 rules),
	// all 10 addresses from one below to one above queried.
	const base8 = 0x0A000008
	var small []blRule
	for p := 29; p <= 32; p++ {
		step := uint32(1) << (32 - uint(p))
		for a := uint32(base8); a < base8+8; a += step {
			small = append(small, blRule{a, p})
		}
	}
	var q10 []string
	for v := uint32(base8 - 1); v <= base8+8; v++ {
		q10 = append(q10, fmt.Sprint(v))
	}
	maxL := 2
	if tier == "thorough" {
		maxL = 3
	}
	var rec func(prefix []blRule)
	rec = func(prefix []blRule) {
		var lines []string
		for _, rl := range prefix {
			lines = append(lines, rl.String())
		}
		newCase([]string{
			"reload text=" + hexs([]byte(strings.Join(lines, "\n"))),
			"blocked ips=" + strings.Join(q10, ","),
			"len",
		})
		if len(prefix) == maxL {
			return
		}
		for _, rl := range small {
			rec(append(append([]blRule{}, prefix...), rl))
		}
	}
	rec(nil)
	// (2) exhaustive for the raw tree: every list of <= 2 (thorough 3) closed ranges over {0..4}, inverted ones
	// included, every value 0..5 queried.
	var allR []string
	for lo := 0; lo <= 4; lo++ {
		for hi := 0; hi <= 4; hi++ {
			allR = append(allR, fmt.Sprintf("%d-%d", lo, hi))
		}
	}
	var recS func(prefix []string)
	recS = func(prefix []string) {
		newCase([]string{"stree ranges=" + joinOrDash(prefix) + " q=0,1,2,3,4,5"})
		if len(prefix) == maxL {
			return
		}
		for _, x := range allR {
			recS(append(append([]string{}, prefix...), x))
		}
	}
	recS(nil)
	// (3) generated blocklist histories: several reloads, queries at every endpoint and neighbour.
	for i := 0; i < n; i++ {
		base := uint32(r.PickU(0x0A000000, 0x0A0000F0, 0, 0xFFFFFFC0, 0x7FFFFFE0, 0xC0A80100, 0x7F000000, 0x7F000000))
		window := uint32(r.Pick(8, 16, 64))
		var ops []string
		var all []blRule
		nre := r.Range(1, 4)
		for j := 0; j < nre; j++ {
			text, rules := genBlocklistText(r, base, window)
			op := "reload text=" + hexs([]byte(text))
			if r.Chance(3) {
				op += fmt.Sprintf(" long=%d", r.Pick(65534, 65535, 65536, 65537, 70000))
			}
			ops = append(ops, op)
			all = append(all, rules...)
			ops = append(ops, "blocked ips="+blQueries(r, all, base, window, 6))
			if r.Chance(50) {
				ops = append(ops, "len")
			}
			if r.Chance(40) {
				// the same questions through resolver.Resolve, by literal address and by host name
				ops = append(ops, "resolve hosts=L,"+blQueries(r, all, base, window, 3)+",L")
			}
			if r.Chance(10) {
				ops = append(ops, "blockedv6")
			}
		}
		newCase(ops)
	}
	// (4) generated raw-tree cases: arbitrary closed ranges (partial overlaps, shared endpoints, uint32 edges).
	for i := 0; i < n; i++ {
		base := uint32(r.PickU(0, 100, 0xFFFFFFE0, 0x7FFFFFF0))
		span := r.Pick(6, 12, 30)
		k := r.Range(0, 9)
		var rs []string
		var pts []uint32
		for j := 0; j < k; j++ {
			lo := base + uint32(r.Intn(span))
			hi := lo + uint32(r.Intn(span/2+1))
			if hi < lo { // wrapped
				hi = 0xFFFFFFFF
			}
			if len(pts) > 0 && r.Chance(40) { // share an endpoint with an earlier range
				lo = pts[r.Intn(len(pts))]
				if hi < lo {
					hi = lo + uint32(r.Intn(3))
					if hi < lo {
						hi = 0xFFFFFFFF
					}
				}
			}
			if r.Chance(5) {
				lo, hi = hi, lo // inverted
			}
			pts = append(pts, lo, hi, hi+1)
			rs = append(rs, fmt.Sprintf("%d-%d", lo, hi))
		}
		seen := map[uint32]bool{}
		var qs []string
		for _, p := range pts {
			for _, v := range []uint32{p - 1, p, p + 1} {
				if !seen[v] {
					seen[v] = true
					qs = append(qs, fmt.Sprint(v))
				}
			}
		}
		qs = append(qs, "0", "4294967295")
		newCase([]string{"stree ranges=" + joinOrDash(rs) + " q=" + strings.Join(qs, ",")})
	}
	return cases
}
