//go:build verif

package main

import (
	"fmt"
	"io"
	"strings"
	"time"

	"github.com/cenkalti/rain/v2/internal/cachedpiece"
	"github.com/cenkalti/rain/v2/internal/filesection"
	"github.com/cenkalti/rain/v2/internal/piece"
	"github.com/cenkalti/rain/v2/internal/piececache"
)

// Suite readpath (C03, bound part for C17): the real CachedPiece over the real Cache over in-memory files.
//   op: open max=<cache maxSize> rs=<readSize> t=<torrents> pl=<piece length,…> s=<data seed> cuts=<k>
//         piece p of torrent j holds bytes rpByte(s, j, p, i); every piece is split over up to cuts+1 files
//   op: read t=<j> p=<piece> off=<off> n=<len>        obs: ok:<hex> | err:<bytes before the error> | panic   + " size=<cache size> len=<items>"
//   op: fire t=<j> p=<piece> blk=<cache block>        obs: size=… len=…   (expiry timer of that block runs)
//   op: clear                                         obs: size=0 len=0

func init() {
	register(&Suite{Name: "readpath", Gen: genReadpath, Exec: execReadpath})
}

func rpByte(s, t, p, i int) byte { return byte((17 + s + t*53 + p*101 + i*37 + i/7) % 256) }

type rpMemFile struct{ b []byte }

func (m *rpMemFile) ReadAt(p []byte, off int64) (int, error) {
	if off >= int64(len(m.b)) {
		return 0, io.EOF
	}
	n := copy(p, m.b[off:])
	if n < len(p) {
		return n, io.EOF
	}
	return n, nil
}

func (m *rpMemFile) WriteAt(p []byte, off int64) (int, error) { return 0, io.ErrShortWrite }

type rpWorld struct {
	cache  *piececache.Cache
	rs     int64
	pieces [][]piece.Piece // [torrent][piece]
	ids    [][20]byte
}

func rpOpen(m map[string]string) *rpWorld {
	w := &rpWorld{rs: atoi64(m["rs"])}
	w.cache = piececache.New(atoi64(m["max"]), time.Hour, 1)
	nt := atoi(m["t"])
	s := atoi(m["s"])
	cuts := atoi(m["cuts"])
	for t := 0; t < nt; t++ {
		var id [20]byte
		for i := range id {
			id[i] = byte(t + 1)
		}
		w.ids = append(w.ids, id)
		var ps []piece.Piece
		for p, ls := range commaList(m["pl"]) {
			ln := atoi(ls)
			data := make([]byte, ln)
			for i := range data {
				data[i] = rpByte(s, t, p, i)
			}
			// split over cuts+1 files at deterministic cut points; each file carries slack before its section
			var secs filesection.Piece
			start := 0
			for c := 0; c <= cuts; c++ {
				end := ln
				if c < cuts {
					end = start + (ln-start)*(c+1)/(cuts+1)
					if (p+c)%2 == 0 && end < ln {
						end++
					}
				}
				slack := (p + c) % 3
				fb := make([]byte, slack+end-start+2)
				copy(fb[slack:], data[start:end])
				secs = append(secs, filesection.FileSection{File: &rpMemFile{b: fb}, Offset: int64(slack), Length: int64(end - start)})
				start = end
			}
			ps = append(ps, piece.Piece{Index: uint32(p), Length: uint32(ln), Data: secs, Done: true})
		}
		w.pieces = append(w.pieces, ps)
	}
	return w
}

func rpKey(id [20]byte, idx, blk uint32) string {
	k := make([]byte, 28)
	copy(k, id[:])
	k[20], k[21], k[22], k[23] = byte(idx>>24), byte(idx>>16), byte(idx>>8), byte(idx)
	k[24], k[25], k[26], k[27] = byte(blk>>24), byte(blk>>16), byte(blk>>8), byte(blk)
	return string(k)
}

func (w *rpWorld) state() string {
	return fmt.Sprintf("size=%d len=%d", w.cache.Size(), w.cache.Len())
}

func (w *rpWorld) read(t, p int, off int64, n int) (obs string) {
	defer func() {
		if r := recover(); r != nil {
			obs = "panic"
		}
	}()
	if t >= len(w.pieces) || p >= len(w.pieces[t]) {
		return "bad-op"
	}
	cp := cachedpiece.New(&w.pieces[t][p], w.cache, w.rs, w.ids[t])
	buf := make([]byte, n)
	for i := range buf {
		buf[i] = 0xEE
	}
	got, err := cp.ReadAt(buf, off)
	if err != nil {
		return "err:" + hexs(buf[:got])
	}
	return "ok:" + hexs(buf[:got])
}

func execReadpath(ops []string) []string {
	var obs []string
	var w *rpWorld
	defer func() {
		if w != nil {
			w.cache.Close()
		}
	}()
	for _, op := range ops {
		m := kv(op)
		if m["_"] == "open" {
			if w != nil {
				w.cache.Close()
			}
			w = rpOpen(m)
			obs = append(obs, w.state())
			continue
		}
		if w == nil {
			obs = append(obs, "not-open")
			continue
		}
		switch m["_"] {
		case "read":
			obs = append(obs, w.read(atoi(m["t"]), atoi(m["p"]), atoi64(m["off"]), atoi(m["n"]))+" "+w.state())
		case "fire":
			t := atoi(m["t"])
			if t < len(w.ids) {
				w.cache.VerifFire(rpKey(w.ids[t], uint32(atoi(m["p"])), uint32(atoi(m["blk"]))))
			}
			obs = append(obs, w.state())
		case "clear":
			w.cache.Clear()
			obs = append(obs, w.state())
		default:
			obs = append(obs, "unknown-op")
		}
	}
	return obs
}

func genReadpath(r *Rng, n int, tier string) []Case {
	var cases []Case
	id := 0
	add := func(ops []string) {
		id++
		cases = append(cases, Case{ID: fmt.Sprintf("readpath-%d", id), Ops: ops})
	}
	// 1. Complete enumeration: one piece of length 1..maxLen, every readSize 1..len+1, every (off,n) with
	//    off+n <= len, n >= 1, in a seeded order, for cache capacities that force eviction / bypass / keep all.
	maxLen := 9
	if tier == "thorough" {
		maxLen = 14
	}
	for ln := 1; ln <= maxLen; ln++ {
		for rs := 1; rs <= ln+1; rs++ {
			for _, mx := range []int{0, rs, 2*rs + 1, 1 << 20} {
				ops := []string{fmt.Sprintf("open max=%d rs=%d t=1 pl=%d s=%d cuts=%d", mx, rs, ln, ln+rs, (ln+rs)%3)}
				var reads []string
				for off := 0; off < ln; off++ {
					for k := 1; off+k <= ln; k++ {
						reads = append(reads, fmt.Sprintf("read t=0 p=0 off=%d n=%d", off, k))
					}
				}
				for i := len(reads) - 1; i > 0; i-- { // seeded shuffle: the cache state before a read varies
					j := r.Intn(i + 1)
					reads[i], reads[j] = reads[j], reads[i]
				}
				add(append(ops, reads...))
			}
		}
	}
	// 2. Generated worlds: several torrents and pieces sharing one small cache, reads steered to block boundaries,
	//    timers firing and Clear in between; a few reads past the end of the piece (error path).
	for i := 0; i < n; i++ {
		rs := r.Pick(1, 2, 3, 4, 5, 7, 8, 16, 32)
		if r.Chance(4) {
			rs = r.Pick(1<<32, 1<<32+3, 1<<32-1, 1<<31, 1<<40) // block sizes at and above the uint32 range
		}
		nt := r.Range(1, 2)
		np := r.Range(1, 3)
		var pls []string
		var lens []int
		for p := 0; p < np; p++ {
			k := r.Range(1, 4)
			ln := r.Pick(1, rs-1, rs, rs+1, k*rs, k*rs+1, k*rs-1, r.Range(1, 4*rs+2), 50)
			if ln < 1 {
				ln = 1
			}
			if ln > 200 {
				ln = 1 + ln%200
			}
			lens = append(lens, ln)
			pls = append(pls, fmt.Sprint(ln))
		}
		mx := r.Pick(0, 1, rs, rs+1, 2*rs, 3*rs+1, 1<<20, -1)
		if mx > 1<<21 {
			mx = r.Pick(0, 7, 64, 1<<20)
		}
		ops := []string{fmt.Sprintf("open max=%d rs=%d t=%d pl=%s s=%d cuts=%d", mx, rs, nt, strings.Join(pls, ","), r.Intn(200), r.Intn(3))}
		k := r.Range(6, 40)
		for j := 0; j < k; j++ {
			t, p := r.Intn(nt), r.Intn(np)
			ln := lens[p]
			switch {
			case r.Chance(6):
				blk := 0
				if rs < 1<<20 {
					blk = r.Intn(ln/rs + 1)
				}
				ops = append(ops, fmt.Sprintf("fire t=%d p=%d blk=%d", t, p, blk))
			case r.Chance(3):
				ops = append(ops, "clear")
			default:
				var off, cnt int
				rsm := rs
				if rsm > 1<<20 {
					rsm = 8
				}
				switch r.Intn(5) {
				case 0: // crosses the boundary after block b
					b := r.Intn(ln/rsm+1) * rsm
					off = b - r.Range(1, rsm)
					cnt = r.Range(2, 2*rsm+1)
				case 1: // starts on a boundary
					off = r.Intn(ln/rsm+1) * rsm
					cnt = r.Pick(1, rsm-1, rsm, rsm+1, 2*rsm)
				case 2: // ends at the end of the piece
					cnt = r.Range(1, ln)
					off = ln - cnt
				default:
					off = r.Intn(ln)
					cnt = r.Range(1, ln-off)
				}
				if off < 0 {
					off = 0
				}
				if off >= ln {
					off = ln - 1
				}
				if cnt < 1 {
					cnt = 1
				}
				if off+cnt > ln && !r.Chance(5) {
					cnt = ln - off
				}
				ops = append(ops, fmt.Sprintf("read t=%d p=%d off=%d n=%d", t, p, off, cnt))
			}
		}
		add(ops)
	}
	return cases
}
