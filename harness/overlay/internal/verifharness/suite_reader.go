//go:build verif

package main

import (
	"encoding/binary"
	"fmt"
	"runtime/debug"
	"strings"
)

// Suite reader (C08, reader half): malformed and well-formed byte streams, randomly fragmented,
// through the real PeerReader.  Observed: the decoded message sequence, how the reader stopped,
// and whether it allocated more than the bound the property allows for that stream.
//
// op   stream max=<maxMsgSize> frag=<sizes> b=<chunks> [cuts=<positions>]     chunk = <hex> | <hex>*<count>
//      cuts: stream positions at which the read deadline expires once (a slow peer); the generator places them
//      strictly inside the block of a piece message, each after at least one more byte, where the reader must
//      carry on and deliver the block intact
// obs  msgs=<m;m;…> end=<eof|oversize|blocksize|ext|hang> big=<0|1>
//
// big=1 iff the bytes allocated while the reader ran exceed allocBound(len(stream), max): room for
// one buffer of the maximum message size, a fixed per-message overhead (the decoder's bufio buffer,
// pooled 16 KiB block buffers) and slack.  A goroutine stack above maxStack (deep recursion on
// attacker-chosen nesting) kills the harness process, which ./check reports as a crash.

const readerMaxStack = 4 << 20

func allocBound(streamLen, max int) uint64 {
	return uint64(2<<20) + 4*uint64(max) + uint64(24<<10)*uint64(streamLen/5+1)
}

func init() {
	register(&Suite{Name: "reader", Gen: genReader, Exec: execReader})
}

func execReader(ops []string) []string {
	debug.SetMaxStack(readerMaxStack)
	obs := make([]string, len(ops))
	for i, op := range ops {
		m := kv(op)
		if m["_"] != "stream" {
			obs[i] = "bad-op"
			continue
		}
		stream := parseChunks(m["b"])
		max := atoi(m["max"])
		r := runReader(stream, max, parseFrags(m["frag"]), parseFrags(m["cuts"])...)
		big := r.alloc > allocBound(len(stream), max)
		obs[i] = "msgs=" + msgsString(r.msgs) + " end=" + r.end + " big=" + b01(big)
	}
	return obs
}

// ---------------------------------------------------------------------------------------------
// independent reference encoder (generator side only)
// ---------------------------------------------------------------------------------------------

func refFrame(id byte, body []byte) []byte {
	out := make([]byte, 4, 5+len(body))
	binary.BigEndian.PutUint32(out, uint32(1+len(body)))
	out = append(out, id)
	return append(out, body...)
}

func be32(vs ...uint32) []byte {
	var out []byte
	for _, v := range vs {
		out = binary.BigEndian.AppendUint32(out, v)
	}
	return out
}

func readerBstr(b []byte) string { return fmt.Sprintf("%d:%s", len(b), b) }

// genBencodeValue: a random bencoded value for an unknown key (nesting <= depth).
func genBencodeValue(r *Rng, depth int) string {
	k := r.Intn(4)
	if depth <= 0 && k >= 2 {
		k = r.Intn(2)
	}
	switch k {
	case 0:
		return "i" + genIntText(r) + "e"
	case 1:
		return readerBstr(r.Bytes(r.Pick(0, 1, 2, 5, 20)))
	case 2:
		var sb strings.Builder
		sb.WriteString("l")
		for j := r.Intn(4); j > 0; j-- {
			sb.WriteString(genBencodeValue(r, depth-1))
		}
		sb.WriteString("e")
		return sb.String()
	default:
		var sb strings.Builder
		sb.WriteString("d")
		for j := r.Intn(3); j > 0; j-- {
			sb.WriteString(readerBstr(r.Bytes(r.Range(0, 4))))
			sb.WriteString(genBencodeValue(r, depth-1))
		}
		sb.WriteString("e")
		return sb.String()
	}
}

func genIntText(r *Rng) string {
	if r.Chance(65) {
		return fmt.Sprint(r.Pick(0, 1, 2, 3, 255, 256, 257, 16384, 1<<31-1, r.Intn(100000)))
	}
	switch r.Intn(16) {
	case 0:
		return ""
	case 1:
		return "-"
	case 2:
		return "-0"
	case 3:
		return "+5"
	case 4:
		return "007"
	case 5:
		return "9223372036854775807"
	case 6:
		return "9223372036854775808"
	case 7:
		return "-9223372036854775808"
	case 8:
		return "-9223372036854775809"
	case 9:
		return "18446744073709551615"
	case 10:
		return "18446744073709551616"
	case 11:
		return "1x"
	case 12:
		return "4294967296"
	case 13:
		return "-1"
	default:
		return fmt.Sprint(r.Pick(0, 1, 2, 3, 255, 256, 257, 16384, 1<<31-1, r.Intn(100000)))
	}
}

// genExtPayload returns <eid><bencode…> for one of the three payload types, mostly valid,
// with wrong types / odd numbers / unknown keys / duplicates / unsorted keys mixed in.
func genExtPayload(r *Rng) []byte {
	eid := r.Pick(0, 0, 0, 1, 1, 1, 2, 2, 3, 255)
	type ent struct{ k, v string }
	var ents []ent
	val := func(kind string) string {
		if r.Chance(6) { // wrong type or odd value
			return genBencodeValue(r, 2)
		}
		switch kind {
		case "int":
			return "i" + genIntText(r) + "e"
		case "str":
			return readerBstr(r.Bytes(r.Pick(0, 1, 4, 6, 16, 30)))
		default: // map[string]uint8
			var sb strings.Builder
			sb.WriteString("d")
			for j := r.Pick(0, 1, 2, 2, 5); j > 0; j-- {
				sb.WriteString(readerBstr([]byte(r.pickStr("ut_metadata", "ut_pex", "a", "", "lt_donthave"))))
				if r.Chance(10) {
					sb.WriteString(genBencodeValue(r, 1))
				} else {
					sb.WriteString("i" + genIntText(r) + "e")
				}
			}
			sb.WriteString("e")
			return sb.String()
		}
	}
	add := func(k, kind string) {
		if r.Chance(80) {
			ents = append(ents, ent{k, val(kind)})
		}
		if r.Chance(6) {
			ents = append(ents, ent{k, val(kind)}) // duplicate key
		}
	}
	kind := eid
	if kind > 2 {
		kind = r.Intn(3)
	}
	switch kind {
	case 0:
		add("m", "map")
		add("metadata_size", "int")
		add("reqq", "int")
		add("v", "str")
		add("yourip", "str")
	case 1:
		add("msg_type", "int")
		add("piece", "int")
		add("total_size", "int")
		if r.Chance(15) { // the decoder reaches the `bencode:"-"` Data field under the key "-"
			ents = append(ents, ent{"-", r.pickStr("3:abc", "0:", "li1ei255ee", "le", "i5e", "li256ei-1ee", "l1:ae", "de")})
		}
	default:
		add("added", "str")
		add("dropped", "str")
	}
	for j := r.Pick(0, 0, 1, 2); j > 0; j-- { // unknown keys, any position
		e := ent{string(r.Bytes(r.Range(0, 5))), genBencodeValue(r, 3)}
		at := r.Intn(len(ents) + 1)
		ents = append(ents[:at], append([]ent{e}, ents[at:]...)...)
	}
	if r.Chance(15) && len(ents) > 1 { // unsorted
		i, j := r.Intn(len(ents)), r.Intn(len(ents))
		ents[i], ents[j] = ents[j], ents[i]
	}
	var sb strings.Builder
	sb.WriteByte(byte(eid))
	sb.WriteString("d")
	for _, e := range ents {
		sb.WriteString(readerBstr([]byte(e.k)))
		sb.WriteString(e.v)
	}
	sb.WriteString("e")
	if kind == 1 || r.Chance(10) {
		sb.Write(r.Bytes(r.Pick(0, 0, 1, 16, 100)))
	}
	out := []byte(sb.String())
	// byte-level damage of the payload
	switch r.Intn(12) {
	case 0:
		if len(out) > 1 {
			out = out[:1+r.Intn(len(out)-1)]
		}
	case 1:
		if len(out) > 1 {
			out[1+r.Intn(len(out)-1)] = byte(r.Pick('e', 'd', 'l', 'i', ':', '0', '9', '-', 0, 255))
		}
	}
	return out
}

func (r *Rng) pickStr(xs ...string) string { return xs[r.Intn(len(xs))] }

// hostile extension payloads aimed at the decoder's resource use
func genHostileExt(r *Rng, max int) []string {
	eid := r.Pick(0, 1, 2)
	head := fmt.Sprintf("%02x", eid)
	switch r.Intn(6) {
	case 0, 1: // a string announcing more bytes than the message has
		// lengths around every width an accumulator could have (int32, int64, uint64 and beyond)
		n := r.pickStr("1", "20", "65536", "1048576", "16777216", "2147483647", "2147483648", "99999999999",
			"9223372036854775807", "9223372036854775808", "9223372036854775829", "18446744073709551615",
			"18446744073709551616", "18446744073709551636", "99999999999999999999", "340282366920938463463374607431768211456")
		key := r.pickStr("v", "x", "added", "m")
		pre := "d" + readerBstr([]byte(key)) + n + ":"
		if r.Bool() {
			pre = "d" + n + ":" // the key itself
		}
		if r.Chance(30) {
			pre = "d1:xl" + n + ":" // inside a list under an unknown key
		}
		return []string{head + hexs([]byte(pre)), strings.TrimPrefix(hexs(r.Bytes(r.Intn(8))), "-")}
	case 2, 3: // nesting under an unknown key
		n := r.Pick(30, 31, 32, 33, 34, 100, 1000, 9000, 20000)
		if n+16 > max && max > 64 {
			n = max - 16
		}
		open := r.pickStr("l", "l", "d1:a")
		chunks := []string{head + hexs([]byte("d1:x")), fmt.Sprintf("%s*%d", hexs([]byte(open)), n)}
		if r.Bool() {
			chunks = append(chunks, fmt.Sprintf("65*%d", n+1)) // closed properly
		}
		return chunks
	case 4: // nesting inside a known field
		n := r.Pick(31, 32, 33, 2000)
		return []string{head + hexs([]byte("d1:m")), fmt.Sprintf("%s*%d", hexs([]byte("d1:a")), n), fmt.Sprintf("65*%d", n+1)}
	default: // top level is not a dictionary
		return []string{head + strings.TrimPrefix(hexs([]byte(r.pickStr("le", "i5e", "3:abc", "e", "", "de"))), "-")}
	}
}

// chunksLen computes the byte length of a chunk list without materialising it.
func chunksLen(chunks []string) int {
	n := 0
	for _, c := range chunks {
		if i := strings.IndexByte(c, '*'); i >= 0 {
			n += len(unhex(c[:i])) * atoi(c[i+1:])
		} else {
			n += len(unhex(c))
		}
	}
	return n
}

func genValidFrame(r *Rng) []byte {
	edge := func() uint32 { return r.U32Edge(uint32(r.Pick(0, 1, 16384, 100))) }
	switch r.Intn(20) {
	case 0, 1:
		return refFrame(byte(r.Pick(0, 1, 2, 3, 14, 15)), nil)
	case 2:
		return refFrame(byte(r.Pick(4, 17)), be32(edge()))
	case 3, 4:
		return refFrame(5, r.Bytes(r.Pick(0, 1, 2, 8, 64, r.Range(0, 200))))
	case 5, 6:
		return refFrame(6, be32(edge(), edge(), uint32(r.Pick(0, 1, 16383, 16384, 16385, 1<<31, r.Range(0, 20000)))))
	case 7:
		return refFrame(byte(r.Pick(8, 16)), be32(edge(), edge(), edge()))
	case 8, 9, 10:
		n := r.Pick(0, 1, 2, 7, 8, 100, r.Range(0, 300))
		if r.Chance(8) {
			n = r.Pick(16383, 16384, 16385, 16392)
		}
		return refFrame(7, append(be32(edge(), edge()), r.Bytes(n)...))
	case 11:
		return refFrame(9, r.Bytes(2))
	case 12:
		return []byte{0, 0, 0, 0}
	case 13:
		return refFrame(byte(r.Pick(10, 11, 12, 13, 18, 19, 21, 100, 255)), r.Bytes(r.Range(0, 30)))
	default:
		return refFrame(20, genExtPayload(r))
	}
}

func genReader(r *Rng, n int, tier string) []Case {
	var cases []Case
	for i := 0; i < n; i++ {
		max := r.Pick(0, 1, 4, 12, 13, 17, 64, 100, 1000, 1000, 16392, 16393, 16393, 1<<16, 1<<16, 1<<16, 1<<16, 1<<20, 1<<20, 1<<20, 1<<20, 1<<20)
		var chunks []string
		mode := r.Intn(10)
		switch {
		case mode == 0: // hostile extension payload, alone or after a few good frames
			var pre []byte
			for j := r.Intn(3); j > 0; j-- {
				pre = append(pre, genValidFrame(r)...)
			}
			if max < 64 {
				max = 1 << 16
			}
			pl := genHostileExt(r, max)
			ln := chunksLen(pl)
			if r.Chance(10) {
				ln += r.Range(1, 50) // frame announces more than is sent
			}
			chunks = append(chunks, strings.TrimPrefix(hexs(pre), "-")+fmt.Sprintf("%08x14", ln+1))
			chunks = append(chunks, pl...)
			for j := r.Intn(2); j > 0; j-- {
				chunks = append(chunks, hexs(genValidFrame(r)))
			}
		case mode == 1: // random bytes
			chunks = []string{hexs(r.Bytes(r.Pick(0, 1, 3, 4, 5, 6, 17, 100, r.Range(0, 400))))}
		default:
			var frames [][]byte
			for j := r.Range(1, 8); j > 0; j-- {
				frames = append(frames, genValidFrame(r))
			}
			// mutations
			for k := r.Pick(0, 0, 1, 1, 1, 2, 3); k > 0; k-- {
				f := frames[r.Intn(len(frames))]
				switch r.Intn(6) {
				case 0, 1: // length prefix
					if len(f) >= 4 {
						cur := binary.BigEndian.Uint32(f)
						v := r.PickU(0, 1, 2, uint64(cur-1), uint64(cur+1), uint64(cur+8), uint64(max), uint64(max)+1, uint64(max)+2, 5, 9, 13, 14, 1<<14+9, 1<<14+10, 1<<31, 1<<32-1, uint64(uint32(r.U64())))
						binary.BigEndian.PutUint32(f, uint32(v))
					}
				case 2: // id
					if len(f) >= 5 {
						f[4] = byte(r.Pick(0, 4, 5, 6, 7, 8, 9, 13, 14, 16, 17, 20, 21, 255, r.Intn(256)))
					}
				case 3: // flip a byte
					if len(f) > 0 {
						f[r.Intn(len(f))] ^= byte(1 << uint(r.Intn(8)))
					}
				case 4: // insert garbage after the frame
					frames = append(frames, r.Bytes(r.Range(1, 9)))
				default: // field inside the body
					if len(f) >= 9 {
						binary.BigEndian.PutUint32(f[len(f)-4:], r.U32Edge(16384))
					}
				}
			}
			var all []byte
			for _, f := range frames {
				all = append(all, f...)
			}
			if r.Chance(25) && len(all) > 0 { // truncation
				all = all[:r.Intn(len(all))]
			}
			chunks = []string{hexs(all)}
		}
		if len(chunks) == 0 {
			chunks = []string{"-"}
		}
		cases = append(cases, Case{ID: fmt.Sprintf("reader-%d", i+1), Ops: []string{
			fmt.Sprintf("stream max=%d frag=%s b=%s", max, genFrags(r), strings.Join(chunks, ","))}})
	}
	// slow blocks: a piece message whose block arrives in 2–5 bursts with the read deadline expiring in between,
	// followed by two more frames that must be decoded from the right position
	for i := 0; i < n/8+3; i++ {
		bl := r.Pick(2, 3, 16, 100, 1000, 16383, 16384)
		block := r.Bytes(bl)
		body := make([]byte, 8, 8+bl)
		binary.BigEndian.PutUint32(body, uint32(r.Intn(1000)))
		binary.BigEndian.PutUint32(body[4:], uint32(r.Intn(4))*16384)
		all := refFrame(7, append(body, block...))
		all = append(all, genValidFrame(r)...)
		all = append(all, genValidFrame(r)...)
		seen := map[int]bool{}
		var cuts []string
		for k := r.Range(1, 4); k > 0 && bl > 1; k-- {
			c := 13 + r.Range(1, bl-1)
			if !seen[c] {
				seen[c] = true
				cuts = append(cuts, fmt.Sprint(c))
			}
		}
		cases = append(cases, Case{ID: fmt.Sprintf("reader-slow-%d", i+1), Ops: []string{
			fmt.Sprintf("stream max=%d frag=%s b=%s cuts=%s", 1<<20, genFrags(r), hexs(all), joinOrDash(cuts))}})
	}
	return cases
}
