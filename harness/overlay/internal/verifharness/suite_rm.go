//go:build verif

package main

import (
	"fmt"
	"os"
	"sort"
	"strconv"
	"strings"
	"sync"
	"time"

	"github.com/cenkalti/rain/v2/internal/resourcemanager"
)

// Suite rm (C17 rm_balance / rm_no_double_grant, C08 request_returns): the real
// resourcemanager.ResourceManager[int] under scripted requester / canceller / receiver goroutines.
//
// ops (one observation each):
//   new limit=<L>                      -> ok
//   req id=<I> key=<K> n=<N> c=<0|1|2> -> acq=0 | acq=1 | blocked | refused
//        c=0: cancelC stays open; c=1: cancelC is closed before the call; c=2: cancelC is closed by
//        another goroutine while the call is in flight.  `blocked`: Request did not return within
//        the timeout (the manager is then closed to free the goroutine and the case is `dead`).
//   conc key=<K> n=<N> ids=<a,b,..>    -> granted=<sorted ids>|- | blocked      (concurrent callers, cancelC open)
//   storm key=<K> n=<N> ids=<a,b,..>   -> acq=<one 0/1 per id> | blocked         (sequential callers, cancelC closed before each call)
//   cancel id=<I>                      -> ok | refused                           (close(cancelC) of a known request)
//   recv key=<K>                       -> got=<id> | none   (receive one grant on the key's notifyC while poking the loop)
//   release id=<I>                     -> ok | refused      (Release(n) of the acquisition held by I; refused if I holds nothing)
//   stats                              -> size=<S> objs=<O> keys=<P>
//   close                              -> ok | hang
// After `blocked` every further op observes `dead`.

func init() {
	register(&Suite{Name: "rm", Gen: genRM, Exec: execRM})
}

func rmTimeout() time.Duration {
	if s := os.Getenv("VERIF_RM_TIMEOUT_MS"); s != "" {
		if v, err := strconv.Atoi(s); err == nil && v > 0 {
			return time.Duration(v) * time.Millisecond
		}
	}
	return 1500 * time.Millisecond
}

type rmReq struct {
	key     string
	n       int64
	cancelC chan struct{}
	closed  bool
}

type rmCase struct {
	m       *resourcemanager.ResourceManager[int]
	reqs    map[int]*rmReq
	holding map[int]int64
	notify  map[string]chan int
	dead    bool
	closed  bool
}

func (c *rmCase) notifyC(key string) chan int {
	ch, ok := c.notify[key]
	if !ok {
		ch = make(chan int)
		c.notify[key] = ch
	}
	return ch
}

// call runs Request in its own goroutine and waits for it with a timeout.
func (c *rmCase) call(id int, r *rmReq) (acq bool, returned bool) {
	resC := make(chan bool, 1)
	nc := c.notifyC(r.key)
	go func() { resC <- c.m.Request(r.key, id, r.n, nc, r.cancelC) }()
	select {
	case acq = <-resC:
		return acq, true
	case <-time.After(rmTimeout()):
		return false, false
	}
}

func (c *rmCase) kill() {
	c.dead = true
	done := make(chan struct{})
	go func() { c.m.Close(); close(done) }()
	select {
	case <-done:
	case <-time.After(2 * time.Second):
	}
}

func execRM(ops []string) []string {
	c := &rmCase{reqs: map[int]*rmReq{}, holding: map[int]int64{}, notify: map[string]chan int{}}
	defer func() {
		if c.m != nil && !c.closed && !c.dead {
			c.kill()
		}
	}()
	var obs []string
	for _, op := range ops {
		obs = append(obs, c.exec(op))
	}
	return obs
}

func (c *rmCase) exec(op string) string {
	m := kv(op)
	if c.dead {
		return "dead"
	}
	if m["_"] == "new" {
		if c.m != nil {
			return "refused"
		}
		c.m = resourcemanager.New[int](atoi64(m["limit"]))
		return "ok"
	}
	if c.m == nil {
		return "nomgr"
	}
	switch m["_"] {
	case "req":
		id := atoi(m["id"])
		if _, dup := c.reqs[id]; dup {
			return "refused"
		}
		r := &rmReq{key: m["key"], n: atoi64(m["n"]), cancelC: make(chan struct{})}
		c.reqs[id] = r
		var wg sync.WaitGroup
		switch m["c"] {
		case "1":
			close(r.cancelC)
			r.closed = true
		case "2":
			r.closed = true
			wg.Add(1)
			go func() { defer wg.Done(); close(r.cancelC) }()
		}
		acq, ret := c.call(id, r)
		wg.Wait()
		if !ret {
			c.kill()
			return "blocked"
		}
		if acq {
			c.holding[id] = r.n
		}
		return "acq=" + b01(acq)
	case "conc":
		ids := commaList(m["ids"])
		type res struct {
			id  int
			acq bool
		}
		resC := make(chan res, len(ids))
		n := 0
		for _, s := range ids {
			id := atoi(s)
			if _, dup := c.reqs[id]; dup {
				continue
			}
			r := &rmReq{key: m["key"], n: atoi64(m["n"]), cancelC: make(chan struct{})}
			c.reqs[id] = r
			n++
			nc := c.notifyC(r.key)
			go func() { resC <- res{id, c.m.Request(r.key, id, r.n, nc, r.cancelC)} }()
		}
		var granted []int
		deadline := time.After(rmTimeout())
		for i := 0; i < n; i++ {
			select {
			case x := <-resC:
				if x.acq {
					granted = append(granted, x.id)
					c.holding[x.id] = c.reqs[x.id].n
				}
			case <-deadline:
				c.kill()
				return "blocked"
			}
		}
		sort.Ints(granted)
		var parts []string
		for _, g := range granted {
			parts = append(parts, strconv.Itoa(g))
		}
		return "granted=" + joinOrDash(parts)
	case "storm":
		// sequential Requests whose cancel channel is already closed (what the torrent loop does for
		// a peer that was closed earlier in the same handler); one result bit per id
		var bits strings.Builder
		for _, s := range commaList(m["ids"]) {
			id := atoi(s)
			if _, dup := c.reqs[id]; dup {
				bits.WriteByte('x')
				continue
			}
			r := &rmReq{key: m["key"], n: atoi64(m["n"]), cancelC: make(chan struct{}), closed: true}
			close(r.cancelC)
			c.reqs[id] = r
			acq, ret := c.call(id, r)
			if !ret {
				c.kill()
				return "blocked"
			}
			if acq {
				c.holding[id] = r.n
			}
			bits.WriteString(b01(acq))
		}
		return "acq=" + bits.String()
	case "cancel":
		r, ok := c.reqs[atoi(m["id"])]
		if !ok {
			return "refused"
		}
		if !r.closed {
			r.closed = true
			close(r.cancelC)
		}
		return "ok"
	case "recv":
		ch := c.notifyC(m["key"])
		stop := make(chan struct{})
		var wg sync.WaitGroup
		if !c.closed {
			wg.Add(1)
			go func() { // poke the manager loop so that randomRequest() is re-drawn
				defer wg.Done()
				for {
					select {
					case <-stop:
						return
					default:
						c.m.Stats()
					}
				}
			}()
		}
		var out string
		select {
		case id := <-ch:
			if r, ok := c.reqs[id]; ok {
				c.holding[id] = r.n
			}
			out = "got=" + strconv.Itoa(id)
		case <-time.After(25 * time.Millisecond):
			out = "none"
		}
		close(stop)
		wg.Wait()
		return out
	case "release":
		id := atoi(m["id"])
		n, ok := c.holding[id]
		if !ok {
			return "refused"
		}
		delete(c.holding, id)
		done := make(chan struct{})
		go func() { c.m.Release(n); close(done) }()
		select {
		case <-done:
			return "ok"
		case <-time.After(rmTimeout()):
			c.kill()
			return "blocked"
		}
	case "stats":
		st := c.m.Stats()
		return fmt.Sprintf("size=%d objs=%d keys=%d", st.AllocatedSize, st.AllocatedObjects, st.PendingKeys)
	case "close":
		if c.closed {
			return "refused"
		}
		c.closed = true
		done := make(chan struct{})
		go func() { c.m.Close(); close(done) }()
		select {
		case <-done:
			return "ok"
		case <-time.After(rmTimeout()):
			c.dead = true
			return "hang"
		}
	}
	return "badop"
}

// genRM: small limits and amounts so that "exactly fits", "one short" and "zero" coincide often;
// a belief state steers releases / receives to requests that plausibly hold / wait.
func genRM(r *Rng, n int, tier string) []Case {
	var cases []Case
	for ci := 0; ci < n; ci++ {
		limit := r.Pick(0, 1, 2, 3, 4, 5, 8, 8, 16, 16)
		ops := []string{fmt.Sprintf("new limit=%d", limit)}
		avail := int64(limit)
		nextID := 1
		var holders []int          // ids believed to hold
		holdN := map[int]int64{}   // amounts
		var waiting []int          // ids believed pending
		waitKey := map[int]int{}
		waitN := map[int]int64{}
		racy := r.Chance(25) // only some cases use closed/racing cancel channels
		steps := r.Range(8, 30)
		for s := 0; s < steps; s++ {
			switch k := r.Intn(100); {
			case k < 40:
				id := nextID
				nextID++
				key := r.Intn(3)
				amt := int64(r.Pick(0, 1, 2, limit/2, limit/2+1, limit/2+1, limit-1, limit, int(avail), int(avail)+1, int(avail)+1, int(avail)-1, limit+1, r.Range(0, limit+2)))
				if amt < 0 && !r.Chance(3) {
					amt = 1
				}
				if r.Chance(3) {
					amt = -int64(r.Range(1, 3))
				}
				cm := 0
				if racy && r.Chance(40) {
					cm = r.Pick(1, 2)
				}
				ops = append(ops, fmt.Sprintf("req id=%d key=%d n=%d c=%d", id, key, amt, cm))
				if cm == 0 && amt >= 0 {
					if amt <= avail {
						avail -= amt
						holders = append(holders, id)
						holdN[id] = amt
					} else {
						waiting = append(waiting, id)
						waitKey[id] = key
						waitN[id] = amt
					}
				}
			case k < 58:
				if len(holders) > 0 && r.Chance(92) {
					i := r.Intn(len(holders))
					id := holders[i]
					holders = append(holders[:i], holders[i+1:]...)
					avail += holdN[id]
					ops = append(ops, fmt.Sprintf("release id=%d", id))
				} else {
					ops = append(ops, fmt.Sprintf("release id=%d", r.Range(1, nextID)))
				}
			case k < 80:
				// receive a deferred grant where the belief state says one is due; otherwise make room
				fit := -1
				for _, w := range waiting {
					if waitN[w] <= avail {
						fit = w
						break
					}
				}
				switch {
				case fit >= 0:
					ops = append(ops, fmt.Sprintf("recv key=%d", waitKey[fit]))
					// belief: the first fitting request of that key is granted (the implementation may
					// pick another one; the final drain releases whatever is really held)
					for i, w := range waiting {
						if waitKey[w] == waitKey[fit] && waitN[w] <= avail {
							waiting = append(waiting[:i], waiting[i+1:]...)
							holders = append(holders, w)
							holdN[w] = waitN[w]
							avail -= waitN[w]
							break
						}
					}
				case len(waiting) > 0 && len(holders) > 0:
					id := holders[0]
					holders = holders[1:]
					avail += holdN[id]
					ops = append(ops, fmt.Sprintf("release id=%d", id))
				case r.Chance(15):
					ops = append(ops, fmt.Sprintf("recv key=%d", r.Intn(3)))
				default:
					ops = append(ops, "stats")
				}
			case k < 86:
				if len(waiting) > 0 {
					i := r.Intn(len(waiting))
					id := waiting[i]
					waiting = append(waiting[:i], waiting[i+1:]...)
					ops = append(ops, fmt.Sprintf("cancel id=%d", id))
				} else {
					ops = append(ops, fmt.Sprintf("cancel id=%d", r.Range(1, nextID)))
				}
			case k < 89 && racy:
				cnt := r.Range(3, 12)
				var ids []string
				for j := 0; j < cnt; j++ {
					ids = append(ids, strconv.Itoa(nextID))
					nextID++
				}
				ops = append(ops, fmt.Sprintf("storm key=%d n=%d ids=%s", r.Intn(3), r.Pick(0, 1, int(avail)+1, limit+1, limit+1), strings.Join(ids, ",")))
			case k < 92:
				cnt := r.Range(2, 5)
				var ids []string
				for j := 0; j < cnt; j++ {
					ids = append(ids, strconv.Itoa(nextID))
					nextID++
				}
				amt := r.Pick(0, 1, 2, int(avail)/2, int(avail), limit)
				if amt < 0 {
					amt = 0
				}
				ops = append(ops, fmt.Sprintf("conc key=%d n=%d ids=%s", r.Intn(3), amt, strings.Join(ids, ",")))
				// belief after a concurrent burst is fuzzy: resync through holders only
				for j := 0; j < cnt && int64(amt) <= avail && amt > 0; j++ {
					avail -= int64(amt)
				}
			default:
				ops = append(ops, "stats")
			}
		}
		ops = append(ops, "stats")
		if r.Chance(50) { // drain: release every acquisition that is really held, then everything must be back
			for id := 1; id < nextID; id++ {
				ops = append(ops, fmt.Sprintf("release id=%d", id))
			}
			ops = append(ops, "stats")
		}
		if r.Chance(30) {
			ops = append(ops, "close")
			if r.Chance(50) {
				ops = append(ops, fmt.Sprintf("req id=%d key=0 n=1 c=0", nextID), "stats")
			}
		}
		cases = append(cases, Case{ID: fmt.Sprintf("rm-%d", ci+1), Ops: ops})
	}
	return cases
}
