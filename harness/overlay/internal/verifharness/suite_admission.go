//go:build verif

package main

import (
	"fmt"
	"net"
	"sort"
	"strings"

	"github.com/cenkalti/rain/v2/internal/blocklist"
	"github.com/cenkalti/rain/v2/internal/externalip"
	"github.com/cenkalti/rain/v2/internal/peerpriority"
	"github.com/cenkalti/rain/v2/internal/peersource"
	"github.com/cenkalti/rain/v2/torrent"
)

// Suite admission (C18): the real handleNewPeers / dialAddresses / handleNewConnection /
// handle{Outgoing,Incoming}HandshakeDone of package torrent on a bare torrent value (export shim
// torrent.VerifAdmission), with a real AddrList and a real Blocklist.  Addresses are confined to
// 127.0.0.0/8 with closed ports: the outgoing handshakers the code starts really dial.
//
// ops (first op must be `new`):
//   new maxdial= maxaccept= port= blin=<0|1> blout=<0|1> bl=<cidr;...|-|nil> ext=<u32|nil>
//   peers src=<0..4> addrs=<u32>:<port>,...       handleNewPeers
//   accept ip=<u32> port=<p>                      handleNewConnection
//   hsfail addr=<u32>:<port>                      handleOutgoingHandshakeDone with an error
//   infail ip=<u32>                               handleIncomingHandshakeDone with an error
//   ban ip=<u32>                                  bannedPeerIPs[ip] = {} (what a corrupt piece does)
//   reload bl=<cidr;...|->                        session blocklist reload
//   complete v=<0|1>
// obs: <result> [p=<priorities>] dial=<u32:port,... newly dialled, sorted> out=<n> in=<n> conn=<u32,...> q=<n>

func init() {
	register(&Suite{Name: "admission", Gen: genAdmission, Exec: execAdmission})
}

func ipU32(ip net.IP) uint32 {
	b := ip.To4()
	if b == nil {
		return 0
	}
	return uint32(b[0])<<24 | uint32(b[1])<<16 | uint32(b[2])<<8 | uint32(b[3])
}

func admLoopbackOnly(v uint32) bool { return v>>24 == 127 }

func blText(s string) string {
	if s == "-" {
		return ""
	}
	return strings.ReplaceAll(s, ";", "\n")
}

func execAdmission(ops []string) []string {
	var obs []string
	var v *torrent.VerifAdmission
	var bl *blocklist.Blocklist
	defer func() {
		if v != nil {
			v.Close()
		}
	}()
	snapshotOut := func() map[string]bool {
		m := map[string]bool{}
		if v != nil {
			out, _, _, _ := v.Snapshot()
			for _, a := range out {
				m[a] = true
			}
		}
		return m
	}
	tail := func(before map[string]bool) string {
		out, in, conn, q := v.Snapshot()
		var dial []string
		type ap struct {
			ip   uint32
			port int
		}
		var ds []ap
		for _, a := range out {
			if !before[a] {
				ta, _ := net.ResolveTCPAddr("tcp4", a)
				ds = append(ds, ap{ipU32(ta.IP), ta.Port})
			}
		}
		sort.Slice(ds, func(i, j int) bool {
			if ds[i].ip != ds[j].ip {
				return ds[i].ip < ds[j].ip
			}
			return ds[i].port < ds[j].port
		})
		for _, d := range ds {
			dial = append(dial, fmt.Sprintf("%d:%d", d.ip, d.port))
		}
		var cs []uint32
		for _, c := range conn {
			cs = append(cs, ipU32(net.ParseIP(c)))
		}
		sort.Slice(cs, func(i, j int) bool { return cs[i] < cs[j] })
		var css []string
		for _, c := range cs {
			css = append(css, fmt.Sprint(c))
		}
		return fmt.Sprintf("dial=%s out=%d in=%d conn=%s q=%d", joinOrDash(dial), len(out), len(in), joinOrDash(css), q)
	}
	for _, op := range ops {
		m := kv(op)
		if v == nil && m["_"] != "new" {
			obs = append(obs, "no-torrent")
			continue
		}
		before := snapshotOut()
		switch m["_"] {
		case "new":
			if v != nil {
				v.Close()
			}
			bl = nil
			if m["bl"] != "nil" && m["bl"] != "" {
				bl = blocklist.New()
				if _, err := bl.Reload(strings.NewReader(blText(m["bl"]))); err != nil {
					obs = append(obs, "bad-blocklist")
					v = nil
					continue
				}
			}
			v = torrent.VerifNewAdmission(atoi(m["maxdial"]), atoi(m["maxaccept"]), 1000, atoi(m["port"]), bl,
				m["blin"] == "1", m["blout"] == "1", parseU32OrNil(m["ext"]))
			var xs []string
			for _, ip := range externalip.VerifIPs() {
				xs = append(xs, fmt.Sprint(ipU32(ip)))
			}
			obs = append(obs, "ok xip="+joinOrDash(xs)+" "+tail(before))
		case "peers":
			var addrs []*net.TCPAddr
			var prios []string
			safe := true
			for _, a := range commaList(m["addrs"]) {
				p := strings.Split(a, ":")
				ipv := uint32(atou(p[0]))
				if !admLoopbackOnly(ipv) {
					safe = false
				}
				ta := &net.TCPAddr{IP: u32ip(ipv), Port: atoi(p[1])}
				addrs = append(addrs, ta)
				prios = append(prios, fmt.Sprint(peerpriority.Calculate(ta, v.ClientAddr())))
			}
			if !safe {
				obs = append(obs, "refused-non-loopback")
				continue
			}
			v.Peers(addrs, peersource.Source(atoi(m["src"])))
			obs = append(obs, "ok p="+joinOrDash(prios)+" "+tail(before))
		case "accept":
			_, in0, _, _ := v.Snapshot()
			v.Accept(u32ip(uint32(atou(m["ip"]))), atoi(m["port"]))
			_, in1, _, _ := v.Snapshot()
			r := "reject"
			if len(in1) > len(in0) {
				r = "accept"
			}
			obs = append(obs, r+" "+tail(before))
		case "hsfail":
			p := strings.Split(m["addr"], ":")
			if len(p) != 2 {
				obs = append(obs, "bad-op")
				continue
			}
			found := v.OutgoingFail(u32ip(uint32(atou(p[0]))), atoi(p[1]))
			// the failed handshaker is gone: do not report it as "before" either
			delete(before, (&net.TCPAddr{IP: u32ip(uint32(atou(p[0]))), Port: atoi(p[1])}).String())
			if found {
				obs = append(obs, "ok "+tail(before))
			} else {
				obs = append(obs, "none "+tail(before))
			}
		case "infail":
			found := v.IncomingFail(u32ip(uint32(atou(m["ip"]))))
			if found {
				obs = append(obs, "ok "+tail(before))
			} else {
				obs = append(obs, "none "+tail(before))
			}
		case "ban":
			v.Ban(u32ip(uint32(atou(m["ip"]))))
			obs = append(obs, "ok "+tail(before))
		case "reload":
			if bl == nil {
				obs = append(obs, "none "+tail(before))
				continue
			}
			if _, err := bl.Reload(strings.NewReader(blText(m["bl"]))); err != nil {
				obs = append(obs, "err "+tail(before))
			} else {
				obs = append(obs, "ok "+tail(before))
			}
		case "complete":
			v.SetCompleted(m["v"] == "1")
			obs = append(obs, "ok "+tail(before))
		default:
			obs = append(obs, "unknown-op")
		}
	}
	return obs
}

func genAdmission(r *Rng, n int, tier string) []Case {
	var cases []Case
	for i := 0; i < n; i++ {
		port := 6881
		// 127.0.1.0/28: a handful of IPs so that connected / banned / blocked / queued coincide
		var pool []uint32
		for j := 0; j < r.Range(3, 7); j++ {
			pool = append(pool, 0x7F000100+uint32(r.Intn(12)))
		}
		pick := func() uint32 { return pool[r.Intn(len(pool))] }
		bl := "nil"
		if r.Chance(70) {
			var rules []string
			for j := 0; j < r.Range(0, 2); j++ {
				rules = append(rules, blRule{pick(), r.Pick(32, 32, 31, 30)}.String())
			}
			bl = strings.Join(rules, ";")
			if bl == "" {
				bl = "-"
			}
		}
		ext := "nil"
		if r.Chance(50) {
			ext = fmt.Sprint(pick())
		}
		ops := []string{fmt.Sprintf("new maxdial=%d maxaccept=%d port=%d blin=%d blout=%d bl=%s ext=%s",
			r.Pick(0, 1, 1, 2, 2, 3, 5), r.Pick(0, 1, 2, 2, 3), port, r.Intn(2), r.Pick(0, 1, 1), bl, ext)}
		var dialable []string // addresses that were offered; used as hsfail targets
		nops := r.Range(4, 14)
		if r.Chance(30) {
			// scripted coincidence: dial capacity full, another address of some IP waits in the queue, that IP
			// becomes banned / blocked / connected, then a slot is released
			a, b := pick(), pick()
			first := fmt.Sprintf("%d:%d", a, 1)
			ops[0] = fmt.Sprintf("new maxdial=1 maxaccept=%d port=%d blin=%d blout=1 bl=%s ext=nil", r.Pick(1, 2), port, r.Intn(2),
				[]string{"-", "nil", "127.0.2.0/24"}[r.Intn(3)])
			ops = append(ops, "peers src=0 addrs="+first)
			ops = append(ops, fmt.Sprintf("peers src=%d addrs=%d:%d,%d:%d", r.Intn(4), b, r.Pick(2, 3), pick(), r.Pick(1, 2)))
			switch r.Intn(4) {
			case 0:
				ops = append(ops, fmt.Sprintf("ban ip=%d", b))
			case 1:
				ops = append(ops, "reload bl="+blRule{b, r.Pick(32, 31, 30)}.String())
			case 2:
				ops = append(ops, fmt.Sprintf("accept ip=%d port=1025", b))
			default:
				ops = append(ops, fmt.Sprintf("ban ip=%d", a))
			}
			ops = append(ops, "hsfail addr="+first)
			dialable = append(dialable, first)
			nops = r.Range(0, 5)
		}
		for j := 0; j < nops; j++ {
			switch k := r.Intn(100); {
			case k < 35:
				var as []string
				for x := 0; x < r.Pick(1, 1, 2, 3, 5); x++ {
					a := fmt.Sprintf("%d:%d", pick(), r.Pick(1, 1, 2, 3, 0, port))
					as = append(as, a)
					dialable = append(dialable, a)
				}
				ops = append(ops, fmt.Sprintf("peers src=%d addrs=%s", r.Intn(4), strings.Join(as, ",")))
			case k < 55:
				if len(dialable) > 0 {
					ops = append(ops, "hsfail addr="+dialable[r.Intn(len(dialable))])
				}
			case k < 70:
				ops = append(ops, fmt.Sprintf("accept ip=%d port=%d", pick(), r.Range(1024, 1030)))
			case k < 78:
				ops = append(ops, fmt.Sprintf("infail ip=%d", pick()))
			case k < 90:
				ops = append(ops, fmt.Sprintf("ban ip=%d", pick()))
			case k < 97:
				var rules []string
				for x := 0; x < r.Range(0, 2); x++ {
					rules = append(rules, blRule{pick(), r.Pick(32, 32, 31, 30)}.String())
				}
				t := strings.Join(rules, ";")
				if t == "" {
					t = "-"
				}
				ops = append(ops, "reload bl="+t)
			default:
				ops = append(ops, fmt.Sprintf("complete v=%d", r.Intn(2)))
			}
		}
		cases = append(cases, Case{ID: fmt.Sprintf("admission-%d", i+1), Ops: ops})
	}
	return cases
}
