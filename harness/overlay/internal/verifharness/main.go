//go:build verif

// Command verifharness runs the real cenkalti/rain code on generated or replayed operation
// sequences and writes a transcript (case / > op / < observation) that the Lean driver replays
// on the model.  It is compiled into /repo's module by `go build -tags verif -overlay …`; no
// file of it exists in /repo.
package main

import (
	"bufio"
	"flag"
	"fmt"
	"os"
	"runtime/debug"
	"sort"
	"strings"
)

// Case is one independent unit of the correspondence check.
type Case struct {
	ID  string
	Ops []string
}

// Suite couples a generator (ops only, derived from one PRNG) with an executor that runs the
// real implementation and returns exactly one observation line per op.
type Suite struct {
	Name string
	// Gen produces n cases for the tier ("quick"/"thorough").
	Gen func(r *Rng, n int, tier string) []Case
	// Exec runs one case. It must return len(ops) observations.
	Exec func(ops []string) []string

	// Interactive suites (stateful worlds whose next op depends on what the implementation did):
	// NewStepper creates an executor for one case; GenStep generates case number idx by calling
	// step(op), which executes the op on the real code and returns its observation. Ops stay
	// replayable: Exec is derived from NewStepper.
	NewStepper func() Stepper
	GenStep    func(r *Rng, idx int, tier string, step func(op string) string)
}

// Stepper executes ops of one case one at a time.
type Stepper interface {
	Step(op string) string
	Close()
}

func (s *Suite) exec(ops []string) []string {
	if s.Exec != nil {
		return s.Exec(ops)
	}
	st := s.NewStepper()
	defer st.Close()
	var obs []string
	for _, op := range ops {
		obs = append(obs, st.Step(op))
	}
	return obs
}

// runInteractive generates and executes case idx, writing each step as it happens (so that a crash of
// the process leaves the ops executed so far in the transcript).
func runInteractive(s *Suite, seed uint64, idx int, tier string, w *bufio.Writer) {
	fmt.Fprintf(w, "case %s-%d\n", s.Name, idx)
	w.Flush()
	st := s.NewStepper()
	defer st.Close()
	dead := false
	step := func(op string) string {
		if dead {
			return "dead"
		}
		fmt.Fprintf(w, "> %s\n", op)
		w.Flush()
		var o string
		func() {
			defer func() {
				if r := recover(); r != nil {
					msg := strings.ReplaceAll(fmt.Sprint(r), "\n", " ")
					o = "panic:" + panicSite(string(debug.Stack())) + ":" + msg
					dead = true
				}
			}()
			o = st.Step(op)
		}()
		fmt.Fprintf(w, "< %s\n", strings.ReplaceAll(o, "\n", " "))
		w.Flush()
		return o
	}
	s.GenStep(NewRng(seed, fmt.Sprintf("%s-%d", s.Name, idx)), idx, tier, step)
}

var suites = map[string]*Suite{}

func register(s *Suite) { suites[s.Name] = s }

func safeExec(s *Suite, c Case, w *bufio.Writer) {
	fmt.Fprintf(w, "case %s\n", c.ID)
	w.Flush()
	var obs []string
	func() {
		defer func() {
			if r := recover(); r != nil {
				obs = nil
				msg := fmt.Sprint(r)
				msg = strings.ReplaceAll(msg, "\n", " ")
				site := panicSite(string(debug.Stack()))
				for range c.Ops {
					obs = append(obs, "panic:"+site+":"+msg)
				}
			}
		}()
		obs = s.exec(c.Ops)
	}()
	for i, op := range c.Ops {
		o := "missing-observation"
		if i < len(obs) {
			o = obs[i]
		}
		fmt.Fprintf(w, "> %s\n< %s\n", op, strings.ReplaceAll(o, "\n", " "))
	}
	w.Flush()
}

// panicSite returns the first frame inside the rain module that is not the harness itself.
func panicSite(stack string) string {
	lines := strings.Split(stack, "\n")
	for _, l := range lines {
		l = strings.TrimSpace(l)
		if strings.HasPrefix(l, "github.com/cenkalti/rain/v2/") && !strings.Contains(l, "verifharness") && !strings.Contains(l, "Verif") {
			if i := strings.Index(l, "("); i > 0 {
				l = l[:i]
			}
			return strings.TrimPrefix(l, "github.com/cenkalti/rain/v2/")
		}
	}
	return "unknown"
}

func readCases(path string) ([]Case, error) {
	f, err := os.Open(path)
	if err != nil {
		return nil, err
	}
	defer f.Close()
	var cases []Case
	sc := bufio.NewScanner(f)
	sc.Buffer(make([]byte, 1<<20), 1<<28)
	for sc.Scan() {
		line := sc.Text()
		switch {
		case strings.HasPrefix(line, "case "):
			cases = append(cases, Case{ID: strings.TrimPrefix(line, "case ")})
		case strings.HasPrefix(line, "> "):
			if len(cases) == 0 {
				cases = append(cases, Case{ID: "anon"})
			}
			c := &cases[len(cases)-1]
			c.Ops = append(c.Ops, strings.TrimPrefix(line, "> "))
		}
	}
	return cases, sc.Err()
}

func main() {
	if len(os.Args) < 3 {
		var names []string
		for n := range suites {
			names = append(names, n)
		}
		sort.Strings(names)
		fmt.Fprintf(os.Stderr, "usage: verifharness gen|replay <suite> [flags]\nsuites: %s\n", strings.Join(names, " "))
		os.Exit(2)
	}
	mode, name := os.Args[1], os.Args[2]
	fs := flag.NewFlagSet("verifharness", flag.ExitOnError)
	seed := fs.Uint64("seed", 1, "PRNG seed (VERIF_SEED)")
	n := fs.Int("n", 100, "number of generated cases")
	tier := fs.String("tier", "quick", "quick|thorough")
	in := fs.String("in", "", "case file to replay")
	out := fs.String("out", "", "transcript file (default stdout)")
	from := fs.Int("from", 0, "skip the first k cases (used to continue after a crash)")
	_ = fs.Parse(os.Args[3:])
	s, ok := suites[name]
	if !ok {
		fmt.Fprintf(os.Stderr, "unknown suite %q\n", name)
		os.Exit(2)
	}
	var w *bufio.Writer
	if *out == "" {
		w = bufio.NewWriterSize(os.Stdout, 1<<16)
	} else {
		f, err := os.Create(*out)
		if err != nil {
			fmt.Fprintln(os.Stderr, err)
			os.Exit(2)
		}
		defer f.Close()
		w = bufio.NewWriterSize(f, 1<<16)
	}
	defer w.Flush()
	var cases []Case
	switch mode {
	case "gen":
		if s.GenStep != nil {
			for i := *from; i < *n; i++ {
				runInteractive(s, *seed, i+1, *tier, w)
			}
			return
		}
		cases = s.Gen(NewRng(*seed, name), *n, *tier)
	case "replay":
		var err error
		cases, err = readCases(*in)
		if err != nil {
			fmt.Fprintln(os.Stderr, err)
			os.Exit(2)
		}
	default:
		fmt.Fprintf(os.Stderr, "unknown mode %q\n", mode)
		os.Exit(2)
	}
	for i, c := range cases {
		if i < *from {
			continue
		}
		safeExec(s, c, w)
	}
}
