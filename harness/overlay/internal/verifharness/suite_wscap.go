//go:build verif

package main

import (
	"bytes"
	"fmt"
	"os"
	"path/filepath"
	"sort"
	"strings"

	"github.com/cenkalti/rain/v2/internal/logger"
	"github.com/cenkalti/rain/v2/torrent"
)

// Suite wscap (C17 webseed_caps / config_no_panic): a real Session (temp dir, DHT/PEX/RPC off) with a
// generated `WebseedMaxSources`, torrents with N web-seed URLs added through Session.AddTorrent
// (stopped), the number of sources read back through Torrent.Webseeds(); and the same torrents loaded
// again from the resume database by a new Session with another cap.
//
// ops:
//   session cap=<C> [wcache=<bytes>] [pr=<parallel reads>] [pw=<parallel writes>] [dl=<KB/s>] [ul=<KB/s>]
//                                       -> ok dl=<capacity>:<quantum>:<fillInterval ns>|- ul=… | err | panic:<msg>
//        (dl/ul: how NewSession configured the global rate-limit buckets; `-` = limit disabled)
//   add name=<t> urls=<letters>         -> sources=<K> | err | panic:slice | panic:<msg>
//        one letter per url-list entry: h = http://, s = https://, f = ftp:// (unsupported, filtered),
//        u = udp:// (unsupported); `urls=-` = no url-list; `form=s` encodes a single URL as a string
//   reopen cap=<C>                      -> sources=<name>:<K>,… (sorted by name) | err | panic:…
//   close                               -> ok

func init() {
	register(&Suite{Name: "wscap", Gen: genWscap, Exec: execWscap})
}

type wscapCase struct {
	dir   string
	s     *torrent.Session
	cfg   torrent.Config
	names map[string]string // torrent id -> name
}

func wsURL(letter byte, i int) string {
	switch letter {
	case 'h':
		return fmt.Sprintf("http://127.0.0.1:1/ws%d/", i)
	case 's':
		return fmt.Sprintf("https://127.0.0.1:1/ws%d/", i)
	case 'f':
		return fmt.Sprintf("ftp://127.0.0.1:1/ws%d/", i)
	default:
		return fmt.Sprintf("udp://127.0.0.1:1/ws%d", i)
	}
}

func wscapBstr(s string) string { return fmt.Sprintf("%d:%s", len(s), s) }

// wsTorrent hand-encodes a one-piece single-file torrent with the given url-list.
func wsTorrent(name, letters, form string) []byte {
	var b bytes.Buffer
	b.WriteString("d")
	b.WriteString(wscapBstr("info"))
	b.WriteString("d")
	b.WriteString(wscapBstr("length") + "i1e")
	b.WriteString(wscapBstr("name") + wscapBstr(name))
	b.WriteString(wscapBstr("piece length") + "i16384e")
	b.WriteString(wscapBstr("pieces") + "20:" + strings.Repeat("x", 20))
	b.WriteString("e")
	if letters != "-" && letters != "" {
		b.WriteString(wscapBstr("url-list"))
		if form == "s" && len(letters) == 1 {
			b.WriteString(wscapBstr(wsURL(letters[0], 0)))
		} else {
			b.WriteString("l")
			for i := 0; i < len(letters); i++ {
				b.WriteString(wscapBstr(wsURL(letters[i], i)))
			}
			b.WriteString("e")
		}
	}
	b.WriteString("e")
	return b.Bytes()
}

func (c *wscapCase) open(m map[string]string) (out string) {
	defer func() {
		if r := recover(); r != nil {
			out = "panic:" + strings.ReplaceAll(fmt.Sprint(r), " ", "_")
		}
	}()
	cfg := torrent.DefaultConfig
	cfg.Database = filepath.Join(c.dir, "session.db")
	cfg.DataDir = filepath.Join(c.dir, "data")
	cfg.DHTEnabled = false
	cfg.PEXEnabled = false
	cfg.RPCEnabled = false
	cfg.Host = "127.0.0.1"
	cfg.WebseedMaxSources = atoi(m["cap"])
	if v, ok := m["wcache"]; ok {
		cfg.WriteCacheSize = atoi64(v)
	}
	if v, ok := m["pr"]; ok {
		cfg.ParallelReads = uint(atoi(v))
	}
	if v, ok := m["pw"]; ok {
		cfg.ParallelWrites = uint(atoi(v))
	}
	if v, ok := m["dl"]; ok {
		cfg.SpeedLimitDownload = atoi64(v)
	}
	if v, ok := m["ul"]; ok {
		cfg.SpeedLimitUpload = atoi64(v)
	}
	s, err := torrent.NewSession(cfg)
	if err != nil {
		return "err"
	}
	c.s = s
	c.cfg = cfg
	dl, ul, dlOK, ulOK := s.VerifBucketParams()
	show := func(p [3]int64, ok bool) string {
		if !ok {
			return "-"
		}
		return fmt.Sprintf("%d:%d:%d", p[0], p[1], p[2])
	}
	return "ok dl=" + show(dl, dlOK) + " ul=" + show(ul, ulOK)
}

func (c *wscapCase) closeSession() {
	if c.s != nil {
		_ = c.s.Close()
		c.s = nil
	}
}

func (c *wscapCase) add(m map[string]string) (out string) {
	defer func() {
		if r := recover(); r != nil {
			msg := fmt.Sprint(r)
			if strings.Contains(msg, "slice bounds out of range") {
				out = "panic:slice"
			} else {
				out = "panic:" + strings.ReplaceAll(msg, " ", "_")
			}
		}
	}()
	t, err := c.s.AddTorrent(bytes.NewReader(wsTorrent(m["name"], m["urls"], m["form"])), &torrent.AddTorrentOptions{Stopped: true})
	if err != nil {
		return "err"
	}
	c.names[t.ID()] = m["name"]
	return fmt.Sprintf("sources=%d", len(t.Webseeds()))
}

func execWscap(ops []string) []string {
	logger.Disable()
	dir, err := os.MkdirTemp("", "verif-wscap-")
	if err != nil {
		panic(err)
	}
	c := &wscapCase{dir: dir, names: map[string]string{}}
	defer func() {
		c.closeSession()
		os.RemoveAll(dir)
	}()
	var obs []string
	for _, op := range ops {
		m := kv(op)
		switch m["_"] {
		case "session":
			if c.s != nil {
				obs = append(obs, "refused")
				continue
			}
			obs = append(obs, c.open(m))
		case "add":
			if c.s == nil {
				obs = append(obs, "nosession")
				continue
			}
			obs = append(obs, c.add(m))
		case "reopen":
			c.closeSession()
			o := c.open(m)
			if !strings.HasPrefix(o, "ok") {
				obs = append(obs, o)
				continue
			}
			var parts []string
			for _, t := range c.s.ListTorrents() {
				parts = append(parts, fmt.Sprintf("%s:%d", t.Name(), len(t.Webseeds())))
			}
			sort.Strings(parts)
			obs = append(obs, "sources="+joinOrDash(parts))
		case "close":
			c.closeSession()
			obs = append(obs, "ok")
		default:
			obs = append(obs, "badop")
		}
	}
	return obs
}

func genWscap(r *Rng, n int, tier string) []Case {
	var cases []Case
	id := 0
	mk := func(ops []string) {
		id++
		cases = append(cases, Case{ID: fmt.Sprintf("wscap-%d", id), Ops: ops})
	}
	letters := func(k int, mixed bool) string {
		if k == 0 {
			return "-"
		}
		b := make([]byte, k)
		for i := range b {
			b[i] = "hs"[r.Intn(2)]
			if mixed && r.Chance(25) {
				b[i] = "fu"[r.Intn(2)]
			}
		}
		return string(b)
	}
	// complete enumeration of the small space: cap 0..12 x number of sources 0..13 (all supported)
	maxCap, maxN := 12, 13
	for cp := 0; cp <= maxCap; cp++ {
		ops := []string{fmt.Sprintf("session cap=%d", cp)}
		for k := 0; k <= maxN; k++ {
			ops = append(ops, fmt.Sprintf("add name=t%02d urls=%s", k, strings.Repeat("h", k)))
		}
		ops = append(ops, fmt.Sprintf("reopen cap=%d", (cp+5)%(maxCap+1)))
		mk(ops)
	}
	for i := 0; i < n; i++ {
		cp := r.Pick(0, 1, 2, 3, 5, 9, 10, 11, 20, r.Range(0, 24))
		ops := []string{fmt.Sprintf("session cap=%d wcache=%d pr=%d pw=%d dl=%d ul=%d", cp,
			r.Pick(0, 1, 16384, 1<<20), r.Pick(1, 1, 2, 10), r.Pick(1, 1, 2, 10), r.Pick(0, 0, 1, 50, 1000, r.Range(1, 200000)), r.Pick(0, 0, 1, 50, 1000, r.Range(1, 200000)))}
		na := r.Range(1, 5)
		for k := 0; k < na; k++ {
			cnt := r.Pick(0, 1, cp-1, cp, cp+1, 9, 10, 11, r.Range(0, 30))
			if cnt < 0 {
				cnt = 0
			}
			op := fmt.Sprintf("add name=g%d urls=%s", k, letters(cnt, r.Chance(40)))
			if cnt == 1 && r.Chance(50) {
				op += " form=s"
			}
			ops = append(ops, op)
		}
		if r.Chance(60) {
			ops = append(ops, fmt.Sprintf("reopen cap=%d", r.Pick(0, 1, cp, cp+1, 10, r.Range(0, 24))))
		}
		mk(ops)
	}
	return cases
}
