//go:build verif

package main

import (
	"bytes"
	"encoding/hex"
	"encoding/json"
	"fmt"
	"io"
	"net/url"
	"os"
	"path/filepath"
	"sort"
	"strconv"
	"strings"
	"sync"
	"time"

	"github.com/cenkalti/rain/v2/internal/logger"
	"github.com/cenkalti/rain/v2/internal/magnet"
	"github.com/cenkalti/rain/v2/internal/metainfo"
	"github.com/cenkalti/rain/v2/internal/resumer/boltdbresumer"
	"github.com/cenkalti/rain/v2/internal/storage"
	"github.com/cenkalti/rain/v2/torrent"
	"github.com/zeebo/bencode"
	"go.etcd.io/bbolt"
)

// Suite registry (C14): a real torrent.Session on a temp dir (DHT, RPC, PEX off, in-memory storage),
// driven through its public API by generated op sequences; after every op the whole registry is
// observed twice: through the session API and by reading the bbolt buckets.
//
// ops (see notes/C14.md):
//   open lo= hi= resume= plant=     new session on the case's temp dir (closes a previous one); plant = plain
//                                   keys put into the torrents bucket so that resumer.Write fails for that id
//   add kind=t tid= ih= name= trk= ws= id= stopped= sad= sam= seq= [np=]   AddTorrent(tiny .torrent with np pieces, default 1)
//   add kind=m ih= name= trk= pe= id= stopped= sad= sam= seq=          AddURI(magnet)
//   add kind=bad bytes=<hex> | add kind=baduri uri=<hex>               failing input
//   remove t=<k> | start t= | stop t= | addtracker t= url= | bump t= dl= ul= wa= se= | flush
//   compact | swap resume= | clean (CleanDatabase)
//   reopen resume= [spoil=<k>:<how>,…] [maxpieces=<n>] [stofail=<k>,…]
//       Close, then — while the file is closed — damage the stored record of the torrent of the k-th add
//       (how = bitfield: a bitfield of the wrong length; info: info bytes that are no bencoding; infohash: an
//       info-hash of 19 bytes; a record without info bytes always gets how=infohash), then NewSession with
//       Config.MaxPieces = n (0/absent = default) and a storage provider that fails for the listed torrents.
//       All three make loadExistingTorrent fail after the record was read.
// `t=<k>` names the torrent created by the k-th add op of the case.
// obs: <result> | F=<free ports> | T=<live torrents> | D=<db records> | X=<infohash index> | I=<invalid ids>

func init() {
	logger.Disable()
	register(&Suite{Name: "registry", Gen: genRegistry, Exec: execRegistry})
	register(&Suite{Name: "registry-concurrent", Gen: genRegistryConcurrent, Exec: execRegistry})
}

const regURLPrefix = "http://127.0.0.1:1/"

func tokURL(tok string) string {
	if strings.HasPrefix(tok, "bad") {
		return "ftp://127.0.0.1/" + tok
	}
	if strings.HasPrefix(tok, "x") && len(tok) > 1 {
		return string(unhex(tok[1:]))
	}
	return regURLPrefix + tok
}

func isAlnum(s string) bool {
	if s == "" {
		return false
	}
	for _, c := range []byte(s) {
		if !(c >= '0' && c <= '9' || c >= 'a' && c <= 'z' || c >= 'A' && c <= 'Z') {
			return false
		}
	}
	return true
}

func urlTok(u string) string {
	if strings.HasPrefix(u, regURLPrefix) && isAlnum(u[len(regURLPrefix):]) && !strings.HasPrefix(u[len(regURLPrefix):], "x") {
		return u[len(regURLPrefix):]
	}
	if strings.HasPrefix(u, "ftp://127.0.0.1/bad") {
		return u[len("ftp://127.0.0.1/"):]
	}
	return "x" + hex.EncodeToString([]byte(u))
}

func peerTok(p string) string {
	if strings.HasPrefix(p, "127.0.0.1:") && isAlnum(p[10:]) {
		return "p" + p[10:]
	}
	return "x" + hex.EncodeToString([]byte(p))
}

func tokPeer(t string) string {
	if strings.HasPrefix(t, "p") {
		return "127.0.0.1:" + t[1:]
	}
	return string(unhex(strings.TrimPrefix(t, "x")))
}

func nameTok(n string) string {
	if isAlnum(n) && !strings.HasPrefix(n, "x") {
		return n
	}
	if n == "" {
		return "-"
	}
	return "x" + hex.EncodeToString([]byte(n))
}

func tokName(t string) string {
	if t == "-" {
		return ""
	}
	if strings.HasPrefix(t, "x") {
		return string(unhex(t[1:]))
	}
	return t
}

func plusList(xs []string) string {
	if len(xs) == 0 {
		return "-"
	}
	return strings.Join(xs, "+")
}

func splitPlus(s string) []string {
	if s == "" || s == "-" {
		return nil
	}
	return strings.Split(s, "+")
}

// tiers: "u1+u2/u3" ; "-" = none
func parseTiers(s string) [][]string {
	if s == "" || s == "-" {
		return nil
	}
	var out [][]string
	for _, tier := range strings.Split(s, "/") {
		var ti []string
		for _, tok := range splitPlus(tier) {
			ti = append(ti, tokURL(tok))
		}
		out = append(out, ti)
	}
	return out
}

// exportMark compares the tracker tiers of the magnet link the torrent exports (Torrent.Magnet, parsed back with the
// magnet package) with the tiers the torrent has, as a set of sets; "!export" marks a difference. (A private torrent
// exports nothing.)
func exportMark(t *torrent.Torrent, tiers [][]string) string {
	link, err := t.Magnet()
	if err != nil {
		return ""
	}
	m, err := magnet.New(link)
	if err != nil {
		return "!export"
	}
	canon := func(ts [][]string) string {
		var parts []string
		for _, ti := range ts {
			x := append([]string(nil), ti...)
			sort.Strings(x)
			parts = append(parts, strings.Join(x, " "))
		}
		sort.Strings(parts)
		return strings.Join(parts, "|")
	}
	if canon(m.Trackers) != canon(tiers) {
		return "!export"
	}
	return ""
}

func showTiers(tiers [][]string) string {
	if len(tiers) == 0 {
		return "-"
	}
	var parts []string
	for _, ti := range tiers {
		var toks []string
		for _, u := range ti {
			toks = append(toks, urlTok(u))
		}
		parts = append(parts, plusList(toks))
	}
	return strings.Join(parts, "/")
}

// regTorrentBytes builds a tiny valid single-file .torrent. The info dict depends on tid and name only.
func regTorrentBytes(tid int, name string, trackers [][]string, webseeds []string) []byte {
	return regTorrentBytesN(tid, name, trackers, webseeds, 1)
}

// regTorrentBytesN: the same with np pieces (np = 1 gives the bytes of regTorrentBytes).
func regTorrentBytesN(tid int, name string, trackers [][]string, webseeds []string, np int) []byte {
	if np < 1 {
		np = 1
	}
	pieces := make([]byte, 20*np)
	for i := range pieces {
		pieces[i] = byte(tid*31 + i*7 + 1)
	}
	info := map[string]interface{}{
		"length":       int64(5+tid) + int64(np-1)*16384,
		"name":         name,
		"piece length": int64(16384),
		"pieces":       string(pieces),
	}
	ib, err := bencode.EncodeBytes(info)
	if err != nil {
		panic(err)
	}
	top := map[string]interface{}{"info": bencode.RawMessage(ib)}
	if len(trackers) > 0 {
		top["announce-list"] = trackers
	}
	if len(webseeds) > 0 {
		top["url-list"] = webseeds
	}
	b, err := bencode.EncodeBytes(top)
	if err != nil {
		panic(err)
	}
	return b
}

func regInfoHash(tid int, name string) string { return regInfoHashN(tid, name, 1) }

func regInfoHashN(tid int, name string, np int) string {
	mi, err := metainfo.New(bytes.NewReader(regTorrentBytesN(tid, name, nil, nil, np)))
	if err != nil {
		panic(err)
	}
	return hex.EncodeToString(mi.Info.Hash[:])
}

// ---- in-memory storage ----

type memProvider struct {
	fail *sync.Map // ids for which GetStorage fails (besides the nosto* ids)
}

type memStorage struct {
	id string
	mu sync.Mutex
	fs map[string]*memFile
}

type memFile struct {
	mu sync.Mutex
	b  []byte
}

func (p memProvider) GetStorage(id string) (storage.Storage, error) {
	if strings.HasPrefix(id, "nosto") {
		return nil, fmt.Errorf("verif: no storage for %s", id)
	}
	if p.fail != nil {
		if _, bad := p.fail.Load(id); bad {
			return nil, fmt.Errorf("verif: no storage for %s", id)
		}
	}
	return &memStorage{id: id, fs: map[string]*memFile{}}, nil
}

func (s *memStorage) Open(name string, size int64) (storage.File, bool, error) {
	s.mu.Lock()
	defer s.mu.Unlock()
	f, ok := s.fs[name]
	if !ok {
		f = &memFile{b: make([]byte, size)}
		s.fs[name] = f
	}
	return f, ok, nil
}

func (s *memStorage) RootDir() string { return "/verif-mem/" + s.id }

func (f *memFile) ReadAt(p []byte, off int64) (int, error) {
	f.mu.Lock()
	defer f.mu.Unlock()
	if off >= int64(len(f.b)) {
		return 0, io.EOF
	}
	n := copy(p, f.b[off:])
	if n < len(p) {
		return n, io.EOF
	}
	return n, nil
}

func (f *memFile) WriteAt(p []byte, off int64) (int, error) {
	f.mu.Lock()
	defer f.mu.Unlock()
	if int(off)+len(p) > len(f.b) {
		nb := make([]byte, int(off)+len(p))
		copy(nb, f.b)
		f.b = nb
	}
	copy(f.b[off:], p)
	return len(p), nil
}

func (f *memFile) Close() error { return nil }

// ---- session wrapper ----

type regEnv struct {
	dir     string
	ses     *torrent.Session
	lo, hi  int
	addIDs  []string // id returned by the k-th add op ("" if it failed)
	compact bool     // dir/compact.db holds the result of the last successful compact
	nilBefore map[string]bool // ids of the torrents that had no bitfield when the last compact began
}

func regConfig(dir string, lo, hi int, resume bool) torrent.Config {
	cfg := torrent.DefaultConfig
	cfg.Database = filepath.Join(dir, "session.db")
	cfg.DataDir = filepath.Join(dir, "data")
	cfg.DHTEnabled = false
	cfg.PEXEnabled = false
	cfg.RPCEnabled = false
	cfg.Host = "127.0.0.1"
	cfg.PortBegin = uint16(lo)
	cfg.PortEnd = uint16(hi)
	cfg.ResumeOnStartup = resume
	cfg.ResumeWriteInterval = time.Hour
	cfg.BlocklistURL = ""
	cfg.CustomStorage = memProvider{fail: &regStoFail}
	cfg.TrackerStopTimeout = 50 * time.Millisecond
	cfg.MaxTorrentSize = 64 << 10
	return cfg
}

// regStoFail: ids for which the storage provider fails; only filled while a session is being opened.
var regStoFail sync.Map

// closeSession closes the session; a panic inside Close (the stats writer dereferences a missing bucket) is
// reported, the session is gone either way.
func (e *regEnv) closeSession() (res string) {
	if e.ses == nil {
		return "ok"
	}
	s := e.ses
	e.ses = nil
	defer func() {
		if r := recover(); r != nil {
			res = "panic:close"
			// the database file is still open and locked: close it so that the directory can be removed
			_ = torrent.VerifDB(s).Close()
		}
	}()
	s.Close()
	return "ok"
}

func (e *regEnv) open(lo, hi int, resume bool) string {
	return e.openWith(lo, hi, resume, nil, 0, nil)
}

// openWith: Close, damage records (spoil: id -> how), NewSession with MaxPieces and failing storage ids.
func (e *regEnv) openWith(lo, hi int, resume bool, spoil [][2]string, maxPieces int, stofail []string) string {
	if r := e.closeSession(); r != "ok" {
		return r
	}
	if len(spoil) > 0 {
		if err := regSpoil(filepath.Join(e.dir, "session.db"), spoil); err != nil {
			return "err:spoil:" + sanitize(err.Error())
		}
	}
	cfg := regConfig(e.dir, lo, hi, resume)
	if maxPieces > 0 {
		cfg.MaxPieces = uint32(maxPieces)
	}
	for _, id := range stofail {
		regStoFail.Store(id, true)
	}
	s, err := torrent.NewSession(cfg)
	for _, id := range stofail {
		regStoFail.Delete(id)
	}
	if err != nil {
		return "err:" + sanitize(err.Error())
	}
	e.ses, e.lo, e.hi = s, lo, hi
	return "ok"
}

// regSpoil damages stored records in the closed database file.
func regSpoil(path string, spoil [][2]string) error {
	db, err := bbolt.Open(path, 0600, &bbolt.Options{Timeout: time.Second})
	if err != nil {
		return err
	}
	defer db.Close()
	return db.Update(func(tx *bbolt.Tx) error {
		tb := tx.Bucket(torrent.VerifTorrentsBucket())
		if tb == nil {
			return nil
		}
		for _, sp := range spoil {
			b := tb.Bucket([]byte(sp[0]))
			if b == nil {
				continue
			}
			how := sp[1]
			if how == "straybf" {
				// a record of a torrent without metadata that carries a bitfield all the same (a damaged or crafted
				// database): there is nothing the bitfield could be checked against; the record loads like any
				// record without metadata
				if len(b.Get(boltdbresumer.Keys.Info)) == 0 {
					_ = b.Put(boltdbresumer.Keys.Bitfield, []byte{0x80})
					continue
				}
				how = "bitfield"
			}
			if len(b.Get(boltdbresumer.Keys.Info)) == 0 {
				how = "infohash"
			}
			switch how {
			case "bitfield":
				_ = b.Put(boltdbresumer.Keys.Bitfield, []byte{0xff, 0xff, 0xff, 0xff, 0xff, 0xff, 0xff})
			case "info":
				_ = b.Put(boltdbresumer.Keys.Info, []byte("this is not bencoded"))
			default:
				ih := append([]byte(nil), b.Get(boltdbresumer.Keys.InfoHash)...)
				if len(ih) > 19 {
					ih = ih[:19]
				}
				_ = b.Put(boltdbresumer.Keys.InfoHash, ih)
			}
		}
		return nil
	})
}

func sanitize(s string) string {
	s = strings.Map(func(r rune) rune {
		if r == ' ' || r == '|' || r == '\n' || r == '=' {
			return '_'
		}
		return r
	}, s)
	if len(s) > 80 {
		s = s[:80]
	}
	return s
}

func (e *regEnv) refID(k int) string {
	if k >= 1 && k <= len(e.addIDs) && e.addIDs[k-1] != "" {
		return e.addIDs[k-1]
	}
	return fmt.Sprintf("absent-%d", k)
}

func expandID(s string) string {
	switch {
	case s == "" || s == "-":
		return ""
	}
	return s
}

func classifyAddErr(err error) string {
	msg := err.Error()
	switch {
	case msg == "no free port":
		return "err:noport"
	case msg == "duplicate torrent id":
		return "err:dup"
	case strings.HasPrefix(msg, "verif: no storage"):
		return "err:storage"
	case strings.Contains(msg, "incompatible value"):
		return "err:write"
	case strings.HasPrefix(msg, "unsupported uri scheme"):
		return "err:input"
	}
	if _, ok := err.(*torrent.InputError); ok {
		return "err:input"
	}
	return "err:other:" + sanitize(msg)
}

func (e *regEnv) add(m map[string]string) string {
	opt := &torrent.AddTorrentOptions{
		ID:                expandID(m["id"]),
		Stopped:           m["stopped"] == "1",
		StopAfterDownload: m["sad"] == "1",
		StopAfterMetadata: m["sam"] == "1",
		Sequential:        m["seq"] == "1",
	}
	var t *torrent.Torrent
	var err error
	switch m["kind"] {
	case "t":
		b := regTorrentBytesN(atoi(m["tid"]), tokName(m["name"]), parseTiers(m["trk"]), urlList(m["ws"]), atoi(m["np"]))
		t, err = e.ses.AddTorrent(bytes.NewReader(b), opt)
	case "m":
		t, err = e.ses.AddURI(regMagnet(m), opt)
	case "bad":
		t, err = e.ses.AddTorrent(bytes.NewReader(unhex(m["bytes"])), opt)
	case "oversize":
		// a well-formed .torrent that is longer than Config.MaxTorrentSize (64 KiB in this suite) because of a long
		// comment: it must be refused, whichever entry point hands it to the session
		b := regTorrentBytes(atoi(m["tid"]), tokName(m["name"]), nil, nil)
		b = append([]byte("d7:comment"+strconv.Itoa(atoi(m["pad"]))+":"), append(bytes.Repeat([]byte{'c'}, atoi(m["pad"])), b[1:]...)...)
		t, err = e.ses.AddTorrent(bytes.NewReader(b), opt)
	case "baduri":
		t, err = e.ses.AddURI(string(unhex(m["uri"])), opt)
	default:
		e.addIDs = append(e.addIDs, "")
		return "err:badop"
	}
	if err != nil {
		e.addIDs = append(e.addIDs, "")
		return classifyAddErr(err)
	}
	e.addIDs = append(e.addIDs, t.ID())
	return fmt.Sprintf("ok id=%s port=%d", t.ID(), t.Port())
}

// cadd: n goroutines add the same torrent with the same explicit id at the same time.
func (e *regEnv) cadd(m map[string]string) string {
	n := atoi(m["n"])
	if n <= 0 {
		n = 8
	}
	b := regTorrentBytes(atoi(m["tid"]), tokName(m["name"]), parseTiers(m["trk"]), urlList(m["ws"]))
	var wg sync.WaitGroup
	var mu sync.Mutex
	ok, fail := 0, 0
	gate := make(chan struct{})
	for i := 0; i < n; i++ {
		wg.Add(1)
		go func() {
			defer wg.Done()
			<-gate
			opt := &torrent.AddTorrentOptions{ID: expandID(m["id"]), Stopped: m["stopped"] == "1"}
			_, err := e.ses.AddTorrent(bytes.NewReader(b), opt)
			mu.Lock()
			if err == nil {
				ok++
			} else {
				fail++
			}
			mu.Unlock()
		}()
	}
	close(gate)
	wg.Wait()
	id := ""
	if ok > 0 {
		id = expandID(m["id"])
	}
	e.addIDs = append(e.addIDs, id)
	return fmt.Sprintf("ok=%d fail=%d", ok, fail)
}

func urlList(s string) []string {
	var out []string
	for _, tok := range splitPlus(s) {
		out = append(out, tokURL(tok))
	}
	return out
}

func regMagnet(m map[string]string) string {
	var sb strings.Builder
	sb.WriteString("magnet:?xt=urn:btih:" + m["ih"])
	if n := tokName(m["name"]); n != "" {
		sb.WriteString("&dn=" + url.QueryEscape(n))
	}
	for _, tier := range parseTiers(m["trk"]) {
		for _, u := range tier {
			sb.WriteString("&tr=" + url.QueryEscape(u))
		}
	}
	for _, p := range splitPlus(m["pe"]) {
		sb.WriteString("&x.pe=" + tokPeer(p))
	}
	return sb.String()
}

func errObs(err error) string {
	if err == nil {
		return "ok"
	}
	return "err:" + sanitize(err.Error())
}

// ---- observation ----

func started(t *torrent.Torrent) bool {
	st := t.Stats().Status
	return st != torrent.Stopped && st != torrent.Stopping
}

func (e *regEnv) liveObs() string {
	ts := e.ses.ListTorrents()
	sort.Slice(ts, func(i, j int) bool { return ts[i].ID() < ts[j].ID() })
	var recs []string
	for _, t := range ts {
		v := torrent.VerifView(t)
		var ws []string
		for _, w := range t.Webseeds() {
			ws = append(ws, urlTok(w.URL))
		}
		var pe []string
		for _, p := range v.FixedPeers {
			pe = append(pe, peerTok(p))
		}
		recs = append(recs, strings.Join([]string{
			t.ID(), t.InfoHash().String(), nameTok(t.Name()), strconv.Itoa(t.Port()), b01(started(t)),
			showTiers(v.Trackers) + exportMark(t, v.Trackers), plusList(ws), plusList(pe), map[bool]string{false: b01(v.HasInfo), true: "INFOROT"}[v.InfoRot],
			b01(v.StopAfterDownload), b01(v.StopAfterMetadata), b01(v.Sequential), b01(v.CompleteCmdRun),
			fmt.Sprint(v.Downloaded), fmt.Sprint(v.Uploaded), fmt.Sprint(v.Wasted), fmt.Sprint(v.SeededFor),
		}, ","))
	}
	if len(recs) == 0 {
		return "-"
	}
	return strings.Join(recs, ";")
}

// dbObs reads the torrents bucket of db directly (not through the resumer).
func dbObs(db *bbolt.DB, bucket []byte) string {
	var recs []string
	err := db.View(func(tx *bbolt.Tx) error {
		tb := tx.Bucket(bucket)
		if tb == nil {
			return nil
		}
		return tb.ForEach(func(k, v []byte) error {
			b := tb.Bucket(k)
			if b == nil {
				recs = append(recs, string(k)+",notabucket")
				return nil
			}
			get := func(key []byte) string { return string(b.Get(key)) }
			var tiers [][]string
			_ = json.Unmarshal(b.Get(boltdbresumer.Keys.Trackers), &tiers)
			var ws, pe []string
			_ = json.Unmarshal(b.Get(boltdbresumer.Keys.URLList), &ws)
			_ = json.Unmarshal(b.Get(boltdbresumer.Keys.FixedPeers), &pe)
			var wst, pet []string
			for _, w := range ws {
				wst = append(wst, urlTok(w))
			}
			for _, p := range pe {
				pet = append(pet, peerTok(p))
			}
			tf := func(key []byte) string {
				switch get(key) {
				case "true":
					return "1"
				case "false":
					return "0"
				}
				return "?" + hex.EncodeToString(b.Get(key))
			}
			se := "?"
			if d, err := time.ParseDuration(get(boltdbresumer.Keys.SeededFor)); err == nil {
				se = strconv.FormatInt(int64(d), 10)
			}
			recs = append(recs, strings.Join([]string{
				string(k), hex.EncodeToString(b.Get(boltdbresumer.Keys.InfoHash)), nameTok(get(boltdbresumer.Keys.Name)),
				get(boltdbresumer.Keys.Port), tf(boltdbresumer.Keys.Started),
				showTiers(tiers), plusList(wst), plusList(pet), b01(len(b.Get(boltdbresumer.Keys.Info)) > 0),
				tf(boltdbresumer.Keys.StopAfterDownload), tf(boltdbresumer.Keys.StopAfterMetadata),
				tf(boltdbresumer.Keys.Sequential), tf(boltdbresumer.Keys.CompleteCmdRun),
				get(boltdbresumer.Keys.BytesDownloaded), get(boltdbresumer.Keys.BytesUploaded), get(boltdbresumer.Keys.BytesWasted), se,
				get(boltdbresumer.Keys.Version),
			}, ","))
			return nil
		})
	})
	if err != nil {
		return "err:" + sanitize(err.Error())
	}
	if len(recs) == 0 {
		return "-"
	}
	sort.Strings(recs)
	return strings.Join(recs, ";")
}

func (e *regEnv) obs(result string) string {
	if e.ses == nil {
		return result + " | nosession"
	}
	var fp []string
	for _, p := range torrent.VerifFreePorts(e.ses) {
		fp = append(fp, strconv.Itoa(p))
	}
	var idx []string
	for _, p := range torrent.VerifByInfoHash(e.ses) {
		idx = append(idx, hex.EncodeToString([]byte(p[0]))+":"+p[1])
	}
	return fmt.Sprintf("%s | F=%s | T=%s | D=%s | X=%s | I=%s", result, joinOrDash(fp), e.liveObs(),
		dbObs(torrent.VerifDB(e.ses), torrent.VerifTorrentsBucket()), joinOrDash(idx), joinOrDash(torrent.VerifInvalidIDs(e.ses)))
}

func (e *regEnv) compactTo(path string) (res string) {
	defer func() {
		if r := recover(); r != nil {
			msg := fmt.Sprint(r)
			if strings.Contains(msg, "nil pointer") {
				res = "panic:nilderef"
			} else {
				res = "panic:" + sanitize(msg)
			}
		}
	}()
	os.Remove(path)
	// torrents without a bitfield before the compaction (checked by the bfcheck op afterwards)
	e.nilBefore = map[string]bool{}
	for _, t := range e.ses.ListTorrents() {
		if !torrent.VerifHasBitfield(t) {
			e.nilBefore[t.ID()] = true
		}
	}
	err := e.ses.CompactDatabase(path)
	if err != nil {
		return "err:" + sanitize(err.Error())
	}
	db, err := bbolt.Open(path, 0600, &bbolt.Options{ReadOnly: true, Timeout: time.Second})
	if err != nil {
		return "err:open:" + sanitize(err.Error())
	}
	defer db.Close()
	return "ok C=" + dbObs(db, torrent.VerifTorrentsBucket())
}

func execRegistry(ops []string) []string {
	dir, err := os.MkdirTemp("", "verif-registry-")
	if err != nil {
		panic(err)
	}
	e := &regEnv{dir: dir}
	defer func() {
		e.closeSession()
		os.RemoveAll(dir)
	}()
	var out []string
	for _, op := range ops {
		m := kv(op)
		name := m["_"]
		if name == "open" {
			res := e.open(atoi(m["lo"]), atoi(m["hi"]), m["resume"] == "1")
			if e.ses != nil {
				// plant plain keys in the torrents bucket: resumer.Write for such an id fails (bucket/key clash)
				for _, k := range commaList(m["plant"]) {
					_ = torrent.VerifDB(e.ses).Update(func(tx *bbolt.Tx) error {
						return tx.Bucket(torrent.VerifTorrentsBucket()).Put([]byte(k), []byte("x"))
					})
				}
			}
			out = append(out, e.obs(res))
			continue
		}
		if e.ses == nil {
			out = append(out, "nosession")
			continue
		}
		var res string
		switch name {
		case "add":
			res = e.add(m)
		case "cadd":
			res = e.cadd(m)
		case "remove":
			res = errObs(e.ses.RemoveTorrent(e.refID(atoi(m["t"])), true))
		case "removeheld":
			// An add that arrives while the removal of torrent t is under way: the removal is held where it deletes
			// the record (the harness holds bbolt's writer lock), i.e. after the registry entry is gone and before the
			// torrent is closed; the add picks its port meanwhile. The op's result is the add's.
			id := e.refID(atoi(m["t"]))
			tx, err := torrent.VerifDB(e.ses).Begin(true)
			if err != nil {
				res = "err:harness"
				break
			}
			rmDone := make(chan struct{})
			go func() { _ = e.ses.RemoveTorrent(id, true); close(rmDone) }()
			time.Sleep(30 * time.Millisecond) // the removal has reached the database
			addDone := make(chan string, 1)
			go func() { addDone <- e.add(m) }()
			time.Sleep(30 * time.Millisecond) // the add has its port (or has been refused) and waits for the database, too
			_ = tx.Rollback()
			select {
			case res = <-addDone:
			case <-time.After(10 * time.Second):
				res = "hang"
			}
			select {
			case <-rmDone:
			case <-time.After(10 * time.Second):
				res = "hang"
			}
		case "start", "stop", "addtracker", "bump":
			t := e.ses.GetTorrent(e.refID(atoi(m["t"])))
			if t == nil {
				res = "absent"
				break
			}
			switch name {
			case "start":
				res = errObs(t.Start())
			case "stop":
				res = errObs(t.Stop())
				// Wait for Stopped: a Start that arrives while the torrent is still Stopping is dropped by
				// the event loop (lifecycle property C04), which would make the started flag timing-dependent.
				for i := 0; i < 600 && t.Stats().Status != torrent.Stopped; i++ {
					time.Sleep(5 * time.Millisecond)
				}
			case "addtracker":
				if err := t.AddTracker(tokURL(m["url"])); err != nil {
					res = "err:tracker"
				} else {
					res = "ok"
				}
			case "bump":
				torrent.VerifBumpCounters(t, atoi64(m["dl"]), atoi64(m["ul"]), atoi64(m["wa"]), atoi64(m["se"]))
				res = "ok"
			}
		case "flush":
			res = func() (r string) {
				defer func() {
					if recover() != nil {
						r = "panic:nilderef"
					}
				}()
				torrent.VerifUpdateStats(e.ses)
				return "ok"
			}()
		case "clean":
			if err := e.ses.CleanDatabase(); err != nil {
				res = "err:clean"
			} else {
				res = "ok"
			}
		case "bfcheck":
			// a torrent that had no bitfield before the compaction and has none now must have none in compact.db
			res = "bf=same"
			if e.compact {
				if db, err := bbolt.Open(filepath.Join(dir, "compact.db"), 0600, &bbolt.Options{ReadOnly: true, Timeout: time.Second}); err == nil {
					var phantom []string
					for _, t := range e.ses.ListTorrents() {
						if !e.nilBefore[t.ID()] || torrent.VerifHasBitfield(t) {
							continue
						}
						_ = db.View(func(tx *bbolt.Tx) error {
							if tb := tx.Bucket(torrent.VerifTorrentsBucket()); tb != nil {
								if b := tb.Bucket([]byte(t.ID())); b != nil && len(b.Get(boltdbresumer.Keys.Bitfield)) > 0 {
									phantom = append(phantom, t.ID())
								}
							}
							return nil
						})
					}
					db.Close()
					if len(phantom) > 0 {
						res = fmt.Sprintf("bf=phantom:%d", len(phantom))
					}
				}
			}
		case "compact":
			res = e.compactTo(filepath.Join(dir, "compact.db"))
			e.compact = strings.HasPrefix(res, "ok")
		case "swap":
			if !e.compact {
				res = "nocompact"
				break
			}
			if r := e.closeSession(); r != "ok" {
				res = r
				break
			}
			if err := os.Rename(filepath.Join(dir, "compact.db"), filepath.Join(dir, "session.db")); err != nil {
				res = "err:rename"
				break
			}
			e.compact = false
			res = e.open(e.lo, e.hi, m["resume"] == "1")
		case "reopen":
			var spoil [][2]string
			for _, sp := range commaList(m["spoil"]) {
				if i := strings.IndexByte(sp, ':'); i > 0 {
					spoil = append(spoil, [2]string{e.refID(atoi(sp[:i])), sp[i+1:]})
				}
			}
			var stofail []string
			for _, k := range commaList(m["stofail"]) {
				stofail = append(stofail, e.refID(atoi(k)))
			}
			res = e.openWith(e.lo, e.hi, m["resume"] == "1", spoil, atoi(m["maxpieces"]), stofail)
		default:
			res = "err:badop"
		}
		out = append(out, e.obs(res))
	}
	return out
}

// ---- generator ----

func genRegistryConcurrent(r *Rng, n int, tier string) []Case {
	var cases []Case
	for i := 0; i < n; i++ {
		lo := 20000 + r.Intn(40000)
		size := r.Pick(1, 2, 8, 9, 12)
		ops := []string{fmt.Sprintf("open lo=%d hi=%d resume=1 plant=-", lo, lo+size)}
		nadd := 0
		for j, k := 0, r.Range(1, 3); j < k; j++ {
			tid := r.Range(1, 3)
			nadd++
			ops = append(ops, fmt.Sprintf("cadd n=8 kind=t tid=%d ih=%s name=n1 trk=%s ws=- id=e%d stopped=%s",
				tid, regInfoHash(tid, "n1"), r.PickS("-", "u1", "u1+u2/u3"), r.Range(1, 2), b01(r.Chance(60))))
			if r.Chance(40) {
				ops = append(ops, fmt.Sprintf("remove t=%d", r.Range(1, nadd)))
			}
		}
		ops = append(ops, "reopen resume=1")
		cases = append(cases, Case{ID: fmt.Sprintf("registry-concurrent-%d", i+1), Ops: ops})
	}
	return cases
}

func genRegistry(r *Rng, n int, tier string) []Case {
	var cases []Case
	names := []string{"n1", "n2", "n3", "n4"}
	for i := 0; i < n; i++ {
		lo := 20000 + r.Intn(40000)
		size := r.Pick(1, 2, 2, 3, 3, 4)
		planted := r.Chance(30)
		plant := "-"
		if planted {
			plant = "blk1"
		}
		ops := []string{fmt.Sprintf("open lo=%d hi=%d resume=%s plant=%s", lo, lo+size, b01(r.Chance(75)), plant)}
		nops := r.Range(3, 9)
		if tier == "thorough" {
			nops = r.Range(3, 14)
		}
		nadd := 0
		var explicit []string
		genAdd := func() string {
			nadd++
			id := "-"
			switch {
			case r.Chance(12) && len(explicit) > 0:
				id = explicit[r.Intn(len(explicit))] // duplicate (or re-use after removal)
			case r.Chance(35):
				id = fmt.Sprintf("e%d", r.Range(1, 3))
			case r.Chance(6):
				id = fmt.Sprintf("nosto%d", r.Range(1, 2))
			case r.Chance(8) && planted:
				id = "blk1"
			}
			if id != "-" && id != "blk1" && !strings.HasPrefix(id, "nosto") {
				explicit = append(explicit, id)
			}
			flags := fmt.Sprintf("id=%s stopped=%s sad=%s sam=%s seq=%s", id, b01(r.Chance(50)), b01(r.Chance(25)), b01(r.Chance(25)), b01(r.Chance(25)))
			var tiers []string
			switch k := r.Intn(10); {
			case k < 6:
				tid := r.Range(1, 3)
				name := names[r.Intn(len(names))]
				for j, nt := 0, r.Pick(0, 0, 1, 2, 3); j < nt; j++ {
					var ti []string
					for l, m := 0, r.Pick(1, 1, 2); l < m; l++ {
						ti = append(ti, fmt.Sprintf("u%d", r.Range(1, 5)))
					}
					tiers = append(tiers, plusList(ti))
				}
				var ws []string
				for j, nw := 0, r.Pick(0, 0, 1, 2); j < nw; j++ {
					ws = append(ws, fmt.Sprintf("w%d", r.Range(1, 4)))
				}
				trk := "-"
				if len(tiers) > 0 {
					trk = strings.Join(tiers, "/")
				}
				np := r.Pick(1, 1, 1, 2, 3)
				return fmt.Sprintf("add kind=t tid=%d ih=%s name=%s trk=%s ws=%s %s np=%d", tid, regInfoHashN(tid, name, np), name, trk, plusList(ws), flags, np)
			case k < 9:
				tid := r.Range(1, 3)
				name := names[r.Intn(len(names))]
				ih := regInfoHash(tid, name)
				if r.Chance(30) {
					ih = hex.EncodeToString(r.Bytes(20))
				}
				for j, nt := 0, r.Pick(0, 1, 2); j < nt; j++ {
					tiers = append(tiers, fmt.Sprintf("u%d", r.Range(1, 5)))
				}
				trk := "-"
				if len(tiers) > 0 {
					trk = strings.Join(tiers, "/")
				}
				var pe []string
				for j, np := 0, r.Pick(0, 0, 1, 2); j < np; j++ {
					pe = append(pe, fmt.Sprintf("p%d", r.Range(1, 3)))
				}
				nm := name
				if r.Chance(20) {
					nm = "-"
				}
				return fmt.Sprintf("add kind=m ih=%s name=%s trk=%s pe=%s %s", ih, nm, trk, plusList(pe), flags)
			default:
				if r.Bool() {
					if r.Chance(30) {
						return fmt.Sprintf("add kind=oversize tid=%d name=n%d pad=%d %s", r.Range(1, 9), r.Range(1, 9), r.Pick(65536, 70000, 200000), flags)
					}
					return fmt.Sprintf("add kind=bad bytes=%s %s", hexs(r.Bytes(r.Range(0, 12))), flags)
				}
				uri := r.Pick(0, 1, 2)
				u := []string{"gopher://x/y", "magnet:?xt=urn:btih:zz", "magnet:?dn=a"}[uri]
				return fmt.Sprintf("add kind=baduri uri=%s %s", hexs([]byte(u)), flags)
			}
		}
		// directed histories: (known finding F07, outside the tame histories) a record that failed to load loads again
		// after its port was given away; (finding F08, fixed) an explicit id that is listed as invalid is used again,
		// then CleanDatabase, the stats writer, CompactDatabase and a restart must all find the new record
		if d := r.Intn(100); d < 3 {
			lo2 := 20000 + r.Intn(40000)
			ops = []string{fmt.Sprintf("open lo=%d hi=%d resume=%s plant=-", lo2, lo2+1, b01(r.Bool())),
				fmt.Sprintf("add kind=t tid=1 ih=%s name=n1 trk=- ws=- id=e1 stopped=%s sad=0 sam=0 seq=0 np=2", regInfoHashN(1, "n1", 2), b01(r.Bool())),
				fmt.Sprintf("reopen resume=%s maxpieces=1", b01(r.Bool())),
				fmt.Sprintf("add kind=t tid=2 ih=%s name=n2 trk=- ws=- id=- stopped=1 sad=0 sam=0 seq=0 np=1", regInfoHashN(2, "n2", 1)),
				fmt.Sprintf("reopen resume=%s", b01(r.Bool()))}
			cases = append(cases, Case{ID: fmt.Sprintf("registry-%d", i+1), Ops: ops})
			continue
		} else if d < 8 && d >= 6 {
			// every port of the range is taken; one torrent is being removed (the removal is held between the registry
			// and the database) when another add arrives: the port of the torrent that is still live is not to be had
			k := r.Range(1, 2)
			ops = []string{fmt.Sprintf("open lo=%d hi=%d resume=1 plant=-", lo, lo+k)}
			for j := 1; j <= k; j++ {
				nm := fmt.Sprintf("n%d", j)
				ops = append(ops, fmt.Sprintf("add kind=t tid=%d ih=%s name=%s trk=- ws=- id=- stopped=%s sad=0 sam=0 seq=0 np=1", j, regInfoHashN(j, nm, 1), nm, b01(r.Bool())))
			}
			ops = append(ops,
				fmt.Sprintf("removeheld t=%d kind=t tid=7 ih=%s name=n4 trk=- ws=- id=- stopped=1 sad=0 sam=0 seq=0 np=1", r.Range(1, k), regInfoHashN(7, "n4", 1)),
				fmt.Sprintf("add kind=t tid=8 ih=%s name=n3 trk=- ws=- id=- stopped=1 sad=0 sam=0 seq=0 np=1", regInfoHashN(8, "n3", 1)),
				fmt.Sprintf("reopen resume=%s", b01(r.Bool())))
			cases = append(cases, Case{ID: fmt.Sprintf("registry-%d", i+1), Ops: ops})
			continue
		} else if d < 6 {
			ops = []string{fmt.Sprintf("open lo=%d hi=%d resume=1 plant=-", lo, lo+size)}
			ops = append(ops,
				fmt.Sprintf("add kind=t tid=1 ih=%s name=n1 trk=u1 ws=- id=e1 stopped=1 sad=0 sam=0 seq=0 np=1", regInfoHashN(1, "n1", 1)),
				fmt.Sprintf("reopen resume=1 spoil=1:%s", r.PickS("bitfield", "info", "infohash")),
				fmt.Sprintf("add kind=t tid=2 ih=%s name=n2 trk=- ws=- id=e1 stopped=%s sad=0 sam=0 seq=0 np=1", regInfoHashN(2, "n2", 1), b01(r.Bool())),
				"clean", "flush", "compact", "bfcheck", fmt.Sprintf("reopen resume=%s", b01(r.Bool())), "clean")
			cases = append(cases, Case{ID: fmt.Sprintf("registry-%d", i+1), Ops: ops})
			continue
		}
		ops = append(ops, genAdd())
		ref0 := func() int {
			if nadd == 0 {
				return 1
			}
			return r.Range(1, nadd)
		}
		// a restart, sometimes with records that are read but fail to load
		genReopen := func() string {
			op := fmt.Sprintf("reopen resume=%s", b01(r.Chance(75)))
			if r.Chance(22) {
				var sp []string
				for j, k := 0, r.Pick(1, 1, 2); j < k; j++ {
					sp = append(sp, fmt.Sprintf("%d:%s", ref0(), r.PickS("bitfield", "info", "infohash", "straybf", "straybf")))
				}
				op += " spoil=" + strings.Join(sp, ",")
			}
			if r.Chance(10) {
				op += fmt.Sprintf(" maxpieces=%d", r.Pick(1, 1, 2))
			}
			if r.Chance(8) {
				op += fmt.Sprintf(" stofail=%d", ref0())
			}
			return op
		}
		for j := 1; j < nops; j++ {
			ref := func() int {
				if r.Chance(8) {
					return nadd + 1 // never-created
				}
				return r.Range(1, nadd)
			}
			switch k := r.Intn(100); {
			case k < 30:
				ops = append(ops, genAdd())
			case k < 42:
				ops = append(ops, fmt.Sprintf("remove t=%d", ref()))
			case k < 52:
				ops = append(ops, fmt.Sprintf("start t=%d", ref()))
			case k < 60:
				ops = append(ops, fmt.Sprintf("stop t=%d", ref()))
			case k < 68:
				u := fmt.Sprintf("u%d", r.Range(1, 7))
				if r.Chance(15) {
					u = "bad1"
				}
				ops = append(ops, fmt.Sprintf("addtracker t=%d url=%s", ref(), u))
			case k < 75:
				ops = append(ops, fmt.Sprintf("bump t=%d dl=%d ul=%d wa=%d se=%d", ref(), r.Pick(0, 1, 16384, 1<<40), r.Pick(0, 7, 1<<33), r.Pick(0, 3), r.Pick(0, 1, 1500000000, 3600000000000, 86400000000001)))
			case k < 78:
				ops = append(ops, "flush")
			case k < 80:
				ops = append(ops, "clean")
			case k < 87:
				ops = append(ops, "compact", "bfcheck")
			case k < 91:
				ops = append(ops, fmt.Sprintf("swap resume=%s", b01(r.Chance(70))))
			default:
				ops = append(ops, genReopen())
				if r.Chance(25) {
					ops = append(ops, "clean")
				}
				if r.Chance(50) {
					// a burst of writes to the resume database right after the restart: the pages the loaded records
					// were read from are freed and reused while the loaded torrents live on
					for w := r.Range(6, 12); w > 0; w-- {
						switch r.Intn(3) {
						case 0:
							ops = append(ops, fmt.Sprintf("addtracker t=%d url=u%d", ref(), r.Range(1, 7)))
						case 1:
							ops = append(ops, fmt.Sprintf("bump t=%d dl=%d ul=%d wa=0 se=1", ref(), r.Range(1, 1<<30), r.Range(1, 1<<20)), "flush")
						default:
							ops = append(ops, genAdd())
						}
					}
				}
			}
		}
		if r.Chance(60) {
			ops = append(ops, genReopen())
			if r.Chance(20) {
				ops = append(ops, "clean", fmt.Sprintf("reopen resume=%s", b01(r.Bool())))
			}
		}
		cases = append(cases, Case{ID: fmt.Sprintf("registry-%d", i+1), Ops: ops})
	}
	return cases
}
