//go:build verif

package main

import (
	"context"
	"errors"
	"fmt"
	"net"
	"time"

	"github.com/cenkalti/rain/v2/internal/announcer"
	"github.com/cenkalti/rain/v2/internal/logger"
	"github.com/cenkalti/rain/v2/internal/tracker"
)

// Suite announcer (C15, C16): the real PeriodicalAnnouncer against a scripted stub tracker.
// All durations in ops are milliseconds; "near" values are <= 40 ms, "far" values >= 60 s.
//   start min=<ms> done=<0|1>     create + Run; client minimum interval, completion already signalled
//   reply iv=<ms> mi=<ms>         answer the outstanding announce
//   fail ri=<ms>                  fail it (ri > 0: *tracker.Error with RetryIn, else a plain error)
//   fcancel                       the tracker returns context.Canceled although the announcer's context is alive
//   need v=<0|1>                  NeedMorePeers(v)
//   complete                      close(completedC)
//   close                         Close()
// Observation after every op = what the announcer does next:
//   ann ev=<e> nw=<n> gap=<us> cancelled=<0|1>   a new announce reached the tracker (gap from Stats().LastAnnounce)
//   waiting                                      an announce is outstanding at the tracker
//   idle status=<s>                              no announce outstanding, next one is more than 5 s away
//   stuck status=<s>                             neither of the above for 3 s (announcer not going to announce)
//   closed [has=<0|1>: HasAnnounced, read after Close as torrent.stop does] | no-call | not-started

func init() {
	register(&Suite{Name: "announcer", Gen: genAnnouncer, Exec: execAnnouncer})
}

type annCall struct {
	ev     tracker.Event
	nw     int
	ctx    context.Context
	replyC chan annReply
	done   bool
}

type annReply struct {
	resp *tracker.AnnounceResponse
	err  error
}

type annStub struct{ calls chan *annCall }

func (s *annStub) Announce(ctx context.Context, req tracker.AnnounceRequest) (*tracker.AnnounceResponse, error) {
	c := &annCall{ev: req.Event, nw: req.NumWant, ctx: ctx, replyC: make(chan annReply, 1)}
	select {
	case s.calls <- c:
	case <-ctx.Done(): // queue full (an announce storm) and the announcer has moved on
		return nil, ctx.Err()
	}
	select {
	case r := <-c.replyC:
		return r.resp, r.err
	case <-ctx.Done():
		return nil, ctx.Err()
	}
}

func (s *annStub) URL() string { return "http://stub.invalid/announce" }

var annStatusNames = map[announcer.Status]string{
	announcer.NotContactedYet: "notcontacted", announcer.Contacting: "contacting",
	announcer.Working: "working", announcer.NotWorking: "notworking",
}

type annRun struct {
	a          *announcer.PeriodicalAnnouncer
	stub       *annStub
	completedC chan struct{}
	completed  bool
	newPeers   chan []*net.TCPAddr
	cur        *annCall // latest call received
	lastAnn    time.Time
	closed     bool
}

func (r *annRun) outstanding() bool {
	return r.cur != nil && !r.cur.done && r.cur.ctx.Err() == nil
}

// await reports what the announcer does next (see the suite comment).
func (r *annRun) await(prev *annCall) string { return r.awaitWith(prev, nil) }

func (r *annRun) awaitWith(prev, pre *annCall) string {
	stuckAt := time.Now().Add(3 * time.Second)
	preC := make(chan *annCall, 1)
	if pre != nil {
		preC <- pre
	}
	for {
		select {
		case c := <-preC:
			return r.gotCall(prev, c)
		case c := <-r.stub.calls:
			return r.gotCall(prev, c)
		default:
		}
		if r.outstanding() {
			return "waiting"
		}
		st := r.a.Stats()
		if st.Status == announcer.Working || st.Status == announcer.NotWorking {
			if time.Until(st.NextAnnounce) > 5*time.Second {
				// make sure no announce slipped in between the channel poll and Stats
				select {
				case c := <-r.stub.calls:
					return r.gotCall(prev, c)
				default:
				}
				return "idle status=" + annStatusNames[st.Status]
			}
		}
		if time.Now().After(stuckAt) {
			return "stuck status=" + annStatusNames[st.Status]
		}
		time.Sleep(200 * time.Microsecond)
	}
}

func (r *annRun) gotCall(prev, c *annCall) string {
	st := r.a.Stats()
	gap := int64(0)
	if !r.lastAnn.IsZero() {
		gap = st.LastAnnounce.Sub(r.lastAnn).Microseconds()
	}
	r.lastAnn = st.LastAnnounce
	cancelled := prev != nil && !prev.done && prev.ctx.Err() != nil
	r.cur = c
	return fmt.Sprintf("ann ev=%s nw=%d gap=%d cancelled=%s", c.ev.String(), c.nw, gap, b01(cancelled))
}

// awaitCall waits for the next announce to reach the tracker, whatever the state looks like meanwhile.
func (r *annRun) awaitCall(prev *annCall) string {
	select {
	case c := <-r.stub.calls:
		return r.awaitWith(prev, c)
	case <-time.After(3 * time.Second):
		return "stuck status=" + annStatusNames[r.a.Stats().Status]
	}
}

func genAnnouncer(r *Rng, n int, tier string) []Case {
	var cases []Case
	nearIv := []int{0, 0, -1000, 3, 6, 10, 15, 25}
	farIv := []int{60000, 1800000}
	for i := 0; i < n; i++ {
		min := r.Pick(60000, 60000, 12, 20, 0)
		ops := []string{fmt.Sprintf("start min=%d done=%s", min, b01(r.Chance(15)))}
		steps := r.Range(2, 9)
		if r.Chance(12) {
			// The timer of the next regular announce (20..35 ms after the reply; the torrent has enough peers, the
			// client minimum is far) is pending when the download completes; the tracker takes its time with the
			// `completed` announce: the tick that comes due meanwhile must not produce a regular announce.
			ops = []string{"start min=60000 done=0", "need v=0",
				fmt.Sprintf("replythencomplete iv=%d mi=0 d=%d", r.Pick(20, 25, 35), r.Pick(3, 5, 8)),
				fmt.Sprintf("hold ms=%d", r.Pick(60, 80))}
			steps = r.Range(0, 4)
		}
		for s := 0; s < steps; s++ {
			switch x := r.Intn(100); {
			case x < 45:
				iv := nearIv[r.Intn(len(nearIv))]
				if r.Chance(20) {
					iv = farIv[r.Intn(len(farIv))]
				}
				mi := r.Pick(0, 0, 0, -5, 4, 8, 14, 60000)
				ops = append(ops, fmt.Sprintf("reply iv=%d mi=%d", iv, mi))
			case x < 62:
				ops = append(ops, fmt.Sprintf("fail ri=%d", r.Pick(0, 0, 0, -3, 4, 12, 60000)))
			case x < 72:
				ops = append(ops, "fcancel")
			case x < 86:
				ops = append(ops, "need v="+b01(r.Bool()))
			case x < 96:
				ops = append(ops, "complete")
			default:
				ops = append(ops, "close")
			}
		}
		cases = append(cases, Case{ID: fmt.Sprintf("announcer-%d", i+1), Ops: ops})
	}
	return cases
}

func execAnnouncer(ops []string) []string {
	var obs []string
	var r *annRun
	defer func() {
		if r != nil && !r.closed {
			r.a.Close()
		}
	}()
	for _, op := range ops {
		m := kv(op)
		if m["_"] == "start" {
			if r != nil {
				obs = append(obs, "already-started")
				continue
			}
			r = &annRun{stub: &annStub{calls: make(chan *annCall, 64)}, completedC: make(chan struct{}), newPeers: make(chan []*net.TCPAddr, 64)}
			if m["done"] == "1" {
				close(r.completedC)
				r.completed = true
			}
			get := func() tracker.Torrent { return tracker.Torrent{} }
			r.a = announcer.NewPeriodicalAnnouncer(r.stub, 50, time.Duration(atoi(m["min"]))*time.Millisecond, get, r.completedC, r.newPeers, logger.New("verif"))
			r.a.VerifSetBackoff(5*time.Millisecond, 40*time.Millisecond)
			go r.a.Run()
			obs = append(obs, r.await(nil))
			continue
		}
		if r == nil {
			obs = append(obs, "not-started")
			continue
		}
		if r.closed {
			obs = append(obs, "closed")
			continue
		}
		// drain forwarded peers so the announcer's helper goroutines never pile up
		for len(r.newPeers) > 0 {
			<-r.newPeers
		}
		prev := r.cur
		switch m["_"] {
		case "reply", "fail", "fcancel":
			if !r.outstanding() {
				obs = append(obs, "no-call")
				continue
			}
			var rep annReply
			switch m["_"] {
			case "reply":
				rep.resp = &tracker.AnnounceResponse{
					Interval:    time.Duration(atoi(m["iv"])) * time.Millisecond,
					MinInterval: time.Duration(atoi(m["mi"])) * time.Millisecond,
				}
			case "fail":
				if ri := atoi(m["ri"]); ri > 0 {
					rep.err = &tracker.Error{FailureReason: "scripted", RetryIn: time.Duration(ri) * time.Millisecond}
				} else {
					rep.err = errors.New("scripted failure")
				}
			case "fcancel":
				rep.err = context.Canceled
			}
			r.cur.done = true
			r.cur.replyC <- rep
			obs = append(obs, r.await(prev))
		case "replythencomplete":
			// the tracker answers (the reply arms the timer of the next regular announce), and the download
			// completes d ms later, before that timer is due
			if !r.outstanding() || r.completed {
				obs = append(obs, "no-call")
				continue
			}
			r.cur.done = true
			r.cur.replyC <- annReply{resp: &tracker.AnnounceResponse{
				Interval:    time.Duration(atoi(m["iv"])) * time.Millisecond,
				MinInterval: time.Duration(atoi(m["mi"])) * time.Millisecond,
			}}
			time.Sleep(time.Duration(atoi(m["d"])) * time.Millisecond)
			r.a.Stats()
			close(r.completedC)
			r.completed = true
			obs = append(obs, r.awaitCall(prev))
		case "hold":
			// nothing happens at the tracker for a while: does another announce arrive meanwhile?
			select {
			case c := <-r.stub.calls:
				obs = append(obs, r.gotCall(prev, c))
			case <-time.After(time.Duration(atoi(m["ms"])) * time.Millisecond):
				obs = append(obs, r.await(prev))
			}
		case "need":
			r.a.NeedMorePeers(m["v"] == "1")
			for i := 0; r.a.VerifNeedSignalPending() && i < 20000; i++ {
				time.Sleep(100 * time.Microsecond)
			}
			r.a.Stats() // barrier: the handler of the signal has finished
			obs = append(obs, r.await(prev))
		case "complete":
			if !r.completed {
				close(r.completedC)
				r.completed = true
				// The run loop takes the signal at its next select; a "completed" announce must follow.
				// (Only the arrival of that call is a reliable barrier: select order is random.)
				obs = append(obs, r.awaitCall(prev))
				continue
			}
			obs = append(obs, r.await(prev))
		case "close":
			r.a.Close()
			r.closed = true
			// HasAnnounced is what torrent.stop reads (after Close) to decide who gets the "stopped" event
			obs = append(obs, "closed has="+b01(r.a.HasAnnounced))
		default:
			obs = append(obs, "bad-op")
		}
	}
	return obs
}
