//go:build verif

package main

import (
	"fmt"
	"strconv"
	"strings"
)

// encRuns encodes bytes compactly: tokens joined by '.', each token either plain lowercase hex or
// `N*hh` (N copies of byte hh, used for runs of >= 6 equal bytes).  Empty -> "-".
func encRuns(b []byte) string {
	if len(b) == 0 {
		return "-"
	}
	var toks []string
	var lit []byte
	flush := func() {
		if len(lit) > 0 {
			toks = append(toks, fmt.Sprintf("%x", lit))
			lit = nil
		}
	}
	for i := 0; i < len(b); {
		j := i
		for j < len(b) && b[j] == b[i] {
			j++
		}
		if j-i >= 6 {
			flush()
			toks = append(toks, fmt.Sprintf("%d*%02x", j-i, b[i]))
		} else {
			lit = append(lit, b[i:j]...)
		}
		i = j
	}
	flush()
	return strings.Join(toks, ".")
}

func decRuns(s string) []byte {
	if s == "-" || s == "" {
		return nil
	}
	var out []byte
	for _, t := range strings.Split(s, ".") {
		if k := strings.IndexByte(t, '*'); k >= 0 {
			n, _ := strconv.Atoi(t[:k])
			v, _ := strconv.ParseUint(t[k+1:], 16, 8)
			for i := 0; i < n; i++ {
				out = append(out, byte(v))
			}
		} else {
			out = append(out, unhex(t)...)
		}
	}
	return out
}

func u32list(xs []uint32) string {
	var parts []string
	for _, x := range xs {
		parts = append(parts, strconv.FormatUint(uint64(x), 10))
	}
	return joinOrDash(parts)
}

func pairList(ps [][2]uint32) string {
	var parts []string
	for _, p := range ps {
		parts = append(parts, fmt.Sprintf("%d:%d", p[0], p[1]))
	}
	return joinOrDash(parts)
}
