//go:build verif

package main

import (
	"bytes"
	"crypto/sha1"
	"fmt"
	"io"
	"strings"

	"github.com/cenkalti/rain/v2/internal/bufferpool"
	"github.com/cenkalti/rain/v2/internal/filesection"
	"github.com/cenkalti/rain/v2/internal/piece"
	"github.com/cenkalti/rain/v2/internal/piecewriter"
	"github.com/cenkalti/rain/v2/internal/semaphore"
	metrics "github.com/rcrowley/go-metrics"
)

// Suite pw (C01): the real PieceWriter.Run on in-memory sections.
//   op : run plen=<n> secs=<file>:<off>:<len>:<pad>,… buf=<runs> hash=<hex> match=<0|1> fail=<k|-> slack=<n>
//        (`match` = generator's verdict len(buf)==plen && sha1(buf)==hash, computed with crypto/sha1 directly)
//   obs: match=<0|1> hashok=<0|1> err=<0|1> writes=<file>:<off>:<runs>,…      (match recomputed by the executor)
// Suite bufpool (C01): Pool.Get after a dirty Put.
//   op : cycle mode=<pool|direct> buflen=<n> dirty=<runs> get=<k>
//   obs: len=<k> zero=<0|1> reused=<0|1> | panic

func init() {
	register(&Suite{Name: "pw", Gen: genPW, Exec: execPW})
	register(&Suite{Name: "bufpool", Gen: genBufpool, Exec: execBufpool})
}

type pwRec struct {
	calls  int
	failAt int
	writes []string
}

type pwFile struct {
	id  int
	rec *pwRec
}

func (f *pwFile) ReadAt(p []byte, off int64) (int, error) { return 0, io.EOF }

func (f *pwFile) WriteAt(p []byte, off int64) (int, error) {
	k := f.rec.calls
	f.rec.calls++
	f.rec.writes = append(f.rec.writes, fmt.Sprintf("%d:%d:%s", f.id, off, encRuns(append([]byte(nil), p...))))
	if k == f.rec.failAt {
		return len(p) / 2, io.ErrShortWrite
	}
	return len(p), nil
}

func sha1of(b []byte) []byte {
	h := sha1.Sum(b)
	return h[:]
}

func genPW(r *Rng, n int, tier string) []Case {
	var cases []Case
	for ci := 0; ci < n; ci++ {
		var ops []string
		for k := r.Range(1, 3); k > 0; k-- {
			ns := r.Range(1, 5)
			var parts []string
			plen := 0
			var pads []bool
			var lens []int
			for j := 0; j < ns; j++ {
				ln := r.Pick(0, 1, 1, 2, 3, 5, 8, 16, 100, r.Range(0, 40))
				if r.Chance(3) {
					ln = 16384 + r.Range(0, 2)
				}
				pad := r.Chance(30)
				file := j
				if r.Chance(15) {
					file = r.Intn(ns)
				}
				parts = append(parts, fmt.Sprintf("%d:%d:%d:%s", file, r.Pick(0, 0, 1, 7, 100, r.Range(0, 50)), ln, b01(pad)))
				plen += ln
				pads = append(pads, pad)
				lens = append(lens, ln)
			}
			blen := plen
			if r.Chance(15) {
				blen = r.Pick(0, plen-1, plen+1, plen+5, plen/2)
				if blen < 0 {
					blen = 0
				}
			}
			buf := make([]byte, blen)
			pos := 0
			for j := range lens {
				for q := 0; q < lens[j] && pos < blen; q++ {
					switch {
					case pads[j] && (lens[j] > 64 || r.Chance(90)):
						buf[pos] = 0
					case lens[j] > 64:
						buf[pos] = byte(0x40 + j)
					default:
						buf[pos] = byte(r.U64())
					}
					pos++
				}
			}
			for ; pos < blen; pos++ {
				buf[pos] = byte(r.U64())
			}
			var hash []byte
			switch x := r.Intn(100); {
			case x < 60:
				hash = sha1of(buf)
			case x < 70 && blen > 0:
				c := append([]byte(nil), buf...)
				c[r.Intn(blen)] ^= 1 << uint(r.Intn(8))
				hash = sha1of(c)
			case x < 78 && blen > 0:
				hash = sha1of(buf[:blen-1])
			case x < 84:
				hash = make([]byte, 20)
			case x < 88:
				hash = sha1of(buf)[:19]
			case x < 92:
				hash = nil
			case x < 96:
				hash = sha1of(append(append([]byte(nil), buf...), 0))
			default:
				hash = r.Bytes(20)
			}
			match := blen == plen && bytes.Equal(sha1of(buf), hash)
			fail := "-"
			if r.Chance(15) {
				fail = fmt.Sprint(r.Intn(4))
			}
			ops = append(ops, fmt.Sprintf("run plen=%d secs=%s buf=%s hash=%s match=%s fail=%s slack=%d",
				plen, strings.Join(parts, ","), encRuns(buf), hexs(hash), b01(match), fail, r.Pick(0, 0, 1, 9)))
		}
		cases = append(cases, Case{ID: fmt.Sprintf("pw-%d", ci+1), Ops: ops})
	}
	return cases
}

func execPW(ops []string) []string {
	var obs []string
	for _, op := range ops {
		m := kv(op)
		rec := &pwRec{failAt: -1}
		if m["fail"] != "-" && m["fail"] != "" {
			rec.failAt = atoi(m["fail"])
		}
		var data filesection.Piece
		for _, t := range commaList(m["secs"]) {
			parts := strings.Split(t, ":")
			if len(parts) != 4 {
				continue
			}
			data = append(data, filesection.FileSection{
				File:    &pwFile{id: atoi(parts[0]), rec: rec},
				Offset:  atoi64(parts[1]),
				Length:  atoi64(parts[2]),
				Padding: parts[3] == "1",
			})
		}
		content := decRuns(m["buf"])
		hash := unhex(m["hash"])
		plen := uint32(atou(m["plen"]))
		pi := &piece.Piece{Index: 3, Length: plen, Data: data, Hash: hash}
		pool := bufferpool.New(len(content) + atoi(m["slack"]))
		buf := pool.Get(len(content))
		copy(buf.Data, content)
		pw := piecewriter.New(pi, "harness", buf)
		resultC := make(chan *piecewriter.PieceWriter, 1)
		res := ""
		func() {
			defer func() {
				if r := recover(); r != nil {
					res = "panic"
				}
			}()
			pw.Run(resultC, make(chan struct{}), metrics.NilMeter{}, metrics.NilMeter{}, semaphore.New(1))
		}()
		if res == "panic" {
			obs = append(obs, "panic writes="+joinOrDash(rec.writes))
			continue
		}
		// independent verdict
		sum := sha1.Sum(content)
		match := uint32(len(content)) == plen && bytes.Equal(sum[:], hash)
		obs = append(obs, fmt.Sprintf("match=%s hashok=%s err=%s writes=%s", b01(match), b01(pw.HashOK), b01(pw.Error != nil), joinOrDash(rec.writes)))
	}
	return obs
}

func genBufpool(r *Rng, n int, tier string) []Case {
	var cases []Case
	for ci := 0; ci < n; ci++ {
		buflen := r.Pick(0, 1, 2, 5, 16, 64, r.Range(0, 40))
		dirty := make([]byte, buflen)
		for i := range dirty {
			if r.Chance(80) {
				dirty[i] = byte(1 + r.Intn(255))
			}
		}
		get := r.Pick(0, 1, buflen-1, buflen, buflen, buflen/2, r.Range(0, buflen))
		if r.Chance(5) {
			get = buflen + r.Range(1, 3)
		}
		if get < 0 {
			get = 0
		}
		mode := "direct"
		if r.Bool() {
			mode = "pool"
		}
		cases = append(cases, Case{ID: fmt.Sprintf("bufpool-%d", ci+1), Ops: []string{
			fmt.Sprintf("cycle mode=%s buflen=%d dirty=%s get=%d", mode, buflen, encRuns(dirty), get)}})
	}
	return cases
}

func execBufpool(ops []string) []string {
	var obs []string
	for _, op := range ops {
		m := kv(op)
		buflen := atoi(m["buflen"])
		dirty := decRuns(m["dirty"])
		get := atoi(m["get"])
		res := ""
		func() {
			defer func() {
				if r := recover(); r != nil {
					res = "panic"
				}
			}()
			pool := bufferpool.New(buflen)
			var b bufferpool.Buffer
			reused := false
			if m["mode"] == "pool" {
				first := pool.Get(buflen)
				copy(first.Data, dirty)
				var p0 *byte
				if buflen > 0 {
					p0 = &first.Data[0]
				}
				first.Release()
				b = pool.Get(get)
				reused = buflen > 0 && get > 0 && &b.Data[0] == p0
			} else {
				backing := make([]byte, buflen)
				copy(backing, dirty)
				b = bufferpool.VerifNewBuffer(&backing, get, pool)
				reused = true
			}
			zero := true
			for _, x := range b.Data {
				if x != 0 {
					zero = false
				}
			}
			res = fmt.Sprintf("len=%d zero=%s reused=%s", len(b.Data), b01(zero), b01(reused))
		}()
		obs = append(obs, res)
	}
	return obs
}
