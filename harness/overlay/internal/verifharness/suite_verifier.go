//go:build verif

package main

import (
	"errors"
	"fmt"
	"io"
	"strings"
	"time"

	"github.com/cenkalti/rain/v2/internal/filesection"
	"github.com/cenkalti/rain/v2/internal/piece"
	"github.com/cenkalti/rain/v2/internal/verifier"
)

// Suite verifier (C01): the real Verifier.Run over in-memory pieces.
//   op : verify pieces=<len>:<kind>,…    kind g = stored bytes hash to the piece hash; c = stored bytes corrupted
//        (one bit); h = hash of other data; s = stored bytes one byte short of what was hashed (file padded);
//        e = ReadAt fails; t = the file is shorter than the piece (short read), the recorded hash is that of
//        the bytes present followed by the previous piece's tail
//   obs: bits=<0/1 string> err=<0|1>

func init() {
	register(&Suite{Name: "verifier", Gen: genVerifier, Exec: execVerifier})
}

type vFile struct {
	b    []byte
	fail bool
}

func (f *vFile) ReadAt(p []byte, off int64) (int, error) {
	if f.fail {
		return 0, errors.New("injected read error")
	}
	// (as *os.File does: io.EOF at and beyond the end of the file)
	if off >= int64(len(f.b)) {
		return 0, io.EOF
	}
	n := copy(p, f.b[off:])
	if n < len(p) {
		return n, io.EOF
	}
	return n, nil
}
func (f *vFile) WriteAt(p []byte, off int64) (int, error) { return 0, errors.New("read only") }

func genVerifier(r *Rng, n int, tier string) []Case {
	var cases []Case
	for ci := 0; ci < n; ci++ {
		k := r.Range(1, 8)
		L := r.Pick(1, 2, 5, 16, 33)
		var parts []string
		for i := 0; i < k; i++ {
			ln := L
			if i == k-1 {
				ln = r.Range(1, L)
			}
			kind := "g"
			switch x := r.Intn(100); {
			case x < 55:
			case x < 70:
				kind = "c"
			case x < 82:
				kind = "h"
			case x < 90:
				kind = "s"
			case x < 96 && i > 0:
				kind = "t"
			default:
				kind = "e"
			}
			parts = append(parts, fmt.Sprintf("%d:%s", ln, kind))
		}
		cases = append(cases, Case{ID: fmt.Sprintf("verifier-%d", ci+1), Ops: []string{"verify pieces=" + strings.Join(parts, ",")}})
	}
	return cases
}

func execVerifier(ops []string) []string {
	var obs []string
	for _, op := range ops {
		m := kv(op)
		var pieces []piece.Piece
		var prev []byte // what the previous piece's file holds
		for i, t := range commaList(m["pieces"]) {
			parts := strings.Split(t, ":")
			ln := atoi(parts[0])
			content := make([]byte, ln)
			for j := range content {
				content[j] = byte(i*37 + j*11 + 1)
			}
			hash := sha1of(content)
			f := &vFile{b: append([]byte(nil), content...)}
			switch parts[1] {
			case "c":
				f.b[ln/2] ^= 0x10
			case "h":
				hash = sha1of(append(append([]byte(nil), content...), 0x55))
			case "s":
				hash = sha1of(append(append([]byte(nil), content...), f.b[0]))
			case "e":
				f.fail = true
			case "t":
				// The file is shorter than the piece (truncated behind the client's back after it was opened): the read
				// comes back short. The recorded hash is the hash of what a reader that ignores this would find in a
				// buffer shared with the previous piece: the bytes that are there, then the previous piece's tail.
				d := 1 + i%2
				if d >= ln {
					d = ln
				}
				stale := make([]byte, ln)
				if i > 0 && len(prev) >= ln {
					copy(stale, prev[:ln])
				}
				f.b = f.b[:ln-d]
				hash = sha1of(append(append([]byte(nil), f.b...), stale[ln-d:]...))
			}
			prev = f.b
			pieces = append(pieces, piece.Piece{Index: uint32(i), Length: uint32(ln), Hash: hash,
				Data: filesection.Piece{{File: f, Offset: 0, Length: int64(ln)}}})
		}
		if len(pieces) == 0 {
			obs = append(obs, "nopieces")
			continue
		}
		v := verifier.New()
		progressC := make(chan verifier.Progress)
		resultC := make(chan *verifier.Verifier, 1)
		go v.Run(pieces, progressC, resultC)
		var res *verifier.Verifier
		timeout := time.After(10 * time.Second)
	loop:
		for {
			select {
			case <-progressC:
			case res = <-resultC:
				break loop
			case <-timeout:
				break loop
			}
		}
		if res == nil {
			obs = append(obs, "hang")
			continue
		}
		var sb strings.Builder
		for i := range pieces {
			sb.WriteString(b01(res.Bitfield.Test(uint32(i))))
		}
		obs = append(obs, fmt.Sprintf("bits=%s err=%s", sb.String(), b01(res.Error != nil)))
	}
	return obs
}
