//go:build verif

package main

import (
	"bytes"
	"context"
	"encoding/binary"
	"errors"
	"fmt"
	"io"
	"net"
	"net/url"
	"os"
	"runtime"
	"sort"
	"strings"
	"sync/atomic"
	"time"

	"github.com/cenkalti/rain/v2/internal/announcer"
	"github.com/cenkalti/rain/v2/internal/logger"
	"github.com/cenkalti/rain/v2/internal/tracker"
	"github.com/cenkalti/rain/v2/internal/tracker/udptracker"
)

// Suite udpshared (C16, C15): SEVERAL announce calls share one real udptracker.Transport (one socket, one
// transaction table, one connection per destination) and talk to scripted in-process UDP trackers on loopback.
// The trackers never answer by themselves: every datagram they send is an op, everything they receive is observed.
//
//   ann r=<call> t=<torrent> d=<dest> ev=<none|completed|started|stopped>
//         start call r: go UDPTracker.Announce(ctx_r, …) of torrent t on destination d (the op returns when the run
//         loop has taken the request)
//   cancel r=<call>                cancel ctx_r (the caller of r gives up)
//   reply x=<target>:<kind>,…      the tracker writes these datagrams back to back; target c<d> = the connect
//         transaction last seen on destination d, a<r> = the announce transaction of call r; kinds:
//         ok | dup (ok twice) | wtx (ok with a transaction id nobody uses) | wact (another action) |
//         hdr (8 bytes only) | err (action 3, bencoded reason) | errg (action 3, garbage) | short (4 bytes)
//   wait                           (thorough) sleep until 16 s after the latest first copy of a datagram: every unanswered
//         transaction is retransmitted once (BEP 15: 15 s), none twice (45 s)
//   close                          Transport.Close() (a running periodical announcer is closed first)
//   pstart t=<torrent> d=<dest>    one real announcer.PeriodicalAnnouncer per case, on a tracker.Tracker that hands every
//         Announce to the real UDPTracker; its calls get the ids 100, 101, … (first says started; after an error it
//         retries by itself after 15..45 ms, event none); interval of the replies >= 1000 s: one announce per reply
//   pcomplete                      close(completedC): an announce in flight is cancelled by the announcer, `completed` follows
//         (refused as bad-op while that announce is the one a connect runs under: the implementation races there)
//   pclose                         PeriodicalAnnouncer.Close()
//
// Observation of every op, taken when the expected effects have arrived (or a bound of 2 s has passed):
//   done=<r>:<class>,…   calls that returned: ok/<interval>/<#peers>/<first peer> | cancelled (own context) |
//                        fcancel (context.Canceled, own context alive) | decode | tracker | badconn | eof | closed
//   rx=<dgram>,…         datagrams the trackers received: c<d>.<k> (k-th copy of that connect transaction) |
//                        a<r>.<k>:<event>
//   rtx=<n>              goroutines inside udptracker.retryTransaction = transactions with a retransmission scheduled
//   cn=<n>               goroutines inside udptracker.resolveDestinationAndConnect = connects in flight
//   nt=<n>               (reply only, if > 0) targets that had no transaction id yet
//   pc=<r>,…             (if any) calls the periodical announcer started during the op
// Lists are sorted; no times, no transaction ids are printed.

func init() {
	register(&Suite{Name: "udpshared", Gen: genUdpShared, Exec: execUdpShared})
}

// ---- context that counts Done() calls: Transport.Do evaluates ctx.Done() once per select, the second call means
// ---- the first select (hand-over to the run loop) is behind us

type usCtx struct {
	context.Context
	n atomic.Int32
}

func (c *usCtx) Done() <-chan struct{} {
	c.n.Add(1)
	return c.Context.Done()
}

type usReq struct {
	r, t, d int
	ev      tracker.Event
	ctx     *usCtx
	cancel  func()
	got     atomic.Bool // Announce returned

	// what the harness expects (only used to know how long to wait)
	state         int // 1 queued behind a connect, 2 announce transaction begun
	fin           bool
	ownCancelled  bool
	cancelledInQ  bool
	inTable       bool
	txid          uint32
	hasTx         bool
	resultArrived bool
	periodic      bool
}

// usPeriodic is the one PeriodicalAnnouncer of a case.
type usPeriodic struct {
	a          *announcer.PeriodicalAnnouncer
	t, d       int
	n          atomic.Int32 // calls so far (ids 100+n)
	cur        *usReq
	completedC chan struct{}
	completed  bool
	closed     bool
}

// usPTracker is the tracker.Tracker the announcer talks to: the real UDPTracker with a counting context.
type usPTracker struct {
	w    *usWorld
	real *udptracker.UDPTracker
	p    *usPeriodic
}

func (x *usPTracker) URL() string { return x.real.URL() }

func (x *usPTracker) Announce(ctx context.Context, req tracker.AnnounceRequest) (*tracker.AnnounceResponse, error) {
	r := 100 + int(x.p.n.Add(1)) - 1
	rq := &usReq{r: r, t: x.p.t, d: x.p.d, ev: req.Event, ctx: &usCtx{Context: ctx}, cancel: func() {}, periodic: true}
	x.w.evC <- usEvent{isCall: true, rq: rq, r: r}
	req.Torrent.BytesDownloaded = int64(r)
	resp, err := x.real.Announce(rq.ctx, req)
	rq.got.Store(true)
	x.w.evC <- usEvent{isRes: true, r: r, resp: resp, err: err}
	return resp, err
}

type usDest struct {
	d       int
	pc      *net.UDPConn
	port    int
	state   int // 0 none, 1 connecting, 2 connected
	opener  int
	queued  []int
	connTx  uint32
	hasConn bool
}

type usEvent struct {
	isRes  bool
	isCall bool
	rq     *usReq
	// datagram
	d   int
	buf []byte
	// result
	r    int
	resp *tracker.AnnounceResponse
	err  error
}

type usWorld struct {
	tp       *udptracker.Transport
	tpClosed bool
	dests    map[int]*usDest
	reqs     map[int]*usReq
	evC      chan usEvent
	seen     map[uint32]int
	client   *net.UDPAddr
	start    time.Time // of the case, later: arrival of the latest first copy of a datagram
	slow     bool
	waited   bool
	base     [2]int
	// per op
	done []string
	rx   []string
	expD map[int]bool
	expX map[string]bool
	expC int // calls the periodical announcer is expected to start
	pcs  []string
	note string
	p    *usPeriodic

	lastRtx, lastCn int
}

const usBound = 2 * time.Second

func usCensus() (rtx, cn int) {
	buf := make([]byte, 1<<16)
	for {
		n := runtime.Stack(buf, true)
		if n < len(buf) {
			buf = buf[:n]
			break
		}
		buf = make([]byte, 2*len(buf))
	}
	for _, g := range bytes.Split(buf, []byte("\n\n")) {
		if bytes.Contains(g, []byte("udptracker.retryTransaction(")) {
			rtx++
		}
		if bytes.Contains(g, []byte("udptracker.resolveDestinationAndConnect(")) {
			cn++
		}
	}
	return
}

func newUsWorld() *usWorld {
	w := &usWorld{dests: map[int]*usDest{}, reqs: map[int]*usReq{}, evC: make(chan usEvent, 8192), seen: map[uint32]int{}, start: time.Now()}
	w.base[0], w.base[1] = usCensus()
	w.tp = udptracker.NewTransport(nil, time.Second)
	go w.tp.Run()
	return w
}

func (w *usWorld) dest(d int) *usDest {
	if x, ok := w.dests[d]; ok {
		return x
	}
	pc, err := net.ListenUDP("udp4", &net.UDPAddr{IP: net.IPv4(127, 0, 0, 1)})
	if err != nil {
		panic(err)
	}
	x := &usDest{d: d, pc: pc, port: pc.LocalAddr().(*net.UDPAddr).Port}
	w.dests[d] = x
	go func() {
		buf := make([]byte, 4096)
		for {
			n, from, err := pc.ReadFromUDP(buf)
			if err != nil {
				return
			}
			b := make([]byte, n)
			copy(b, buf[:n])
			_ = from
			w.evC <- usEvent{d: d, buf: b, r: from.Port}
		}
	}()
	return x
}

func (w *usWorld) close() {
	if w.p != nil && !w.p.closed {
		w.p.a.Close()
		w.p.closed = true
	}
	for _, rq := range w.reqs {
		rq.cancel()
	}
	if !w.tpClosed {
		w.tp.Close()
		w.tpClosed = true
	}
	for _, x := range w.dests {
		x.pc.Close()
	}
	// every goroutine of the transport is gone before the next case counts them
	dl := time.Now().Add(usBound)
	for time.Now().Before(dl) {
		a, b := usCensus()
		if a == w.base[0] && b == w.base[1] {
			break
		}
		time.Sleep(200 * time.Microsecond)
	}
}

// usTimeouts counts the cases of this process in which the implementation did not do what was expected within the
// bound; after a few of them (the defect has its witnesses by then) the harness gets less patient.
var usTimeouts int

func (w *usWorld) markSlow() {
	if !w.slow {
		usTimeouts++
	}
	w.slow = true
}

func (w *usWorld) timeout() time.Duration {
	switch {
	case w.slow && usTimeouts >= 12:
		return 10 * time.Millisecond
	case w.slow:
		return 40 * time.Millisecond
	case usTimeouts >= 12:
		return 40 * time.Millisecond
	case usTimeouts >= 4:
		return 150 * time.Millisecond
	}
	return usBound
}

var usEvNames = map[string]tracker.Event{"none": tracker.EventNone, "completed": tracker.EventCompleted, "started": tracker.EventStarted, "stopped": tracker.EventStopped}

func usEvName(e uint32) string {
	for k, v := range usEvNames {
		if uint32(v) == e {
			return k
		}
	}
	return fmt.Sprintf("ev%d", e)
}

func usClass(rq *usReq, resp *tracker.AnnounceResponse, err error) string {
	if err == nil {
		first := "-"
		if len(resp.Peers) > 0 && resp.Peers[0] != nil {
			first = resp.Peers[0].String()
		}
		return fmt.Sprintf("ok/%d/%d/%s", int64(resp.Interval/time.Second), len(resp.Peers), first)
	}
	var terr *tracker.Error
	switch {
	case errors.Is(err, context.Canceled):
		if rq.ownCancelled {
			return "cancelled"
		}
		return "fcancel"
	case errors.Is(err, tracker.ErrDecode):
		return "decode"
	case errors.As(err, &terr):
		return "tracker"
	case err.Error() == "invalid action in connect response":
		return "badconn"
	case errors.Is(err, io.ErrUnexpectedEOF), errors.Is(err, io.EOF):
		return "eof"
	case err.Error() == "udp transport closed", err.Error() == "transport closing":
		return "closed"
	}
	return "other:" + strings.NewReplacer(" ", "_", ",", ";", "=", "~").Replace(err.Error())
}

// absorb records one event in the observation of the current op.
func (w *usWorld) absorb(e usEvent) {
	if e.isCall {
		w.reqs[e.r] = e.rq
		w.p.cur = e.rq
		w.pcs = append(w.pcs, fmt.Sprint(e.r))
		if w.expC > 0 {
			w.expC--
		}
		w.handover(e.rq)
		w.onRequest(e.rq)
		return
	}
	if e.isRes {
		rq := w.reqs[e.r]
		rq.resultArrived = true
		w.done = append(w.done, fmt.Sprintf("%d:%s", e.r, usClass(rq, e.resp, e.err)))
		delete(w.expD, e.r)
		return
	}
	if w.client == nil {
		w.client = &net.UDPAddr{IP: net.IPv4(127, 0, 0, 1), Port: e.r}
	}
	b := e.buf
	if len(b) < 16 {
		w.rx = append(w.rx, "x")
		return
	}
	action := binary.BigEndian.Uint32(b[8:12])
	txid := binary.BigEndian.Uint32(b[12:16])
	switch {
	case action == 0 && len(b) == 16:
		x := w.dests[e.d]
		w.seen[txid]++
		x.connTx, x.hasConn = txid, true
		if w.seen[txid] == 1 {
			w.start = time.Now()
		}
		lab := fmt.Sprintf("c%d.%d", e.d, w.seen[txid])
		w.rx = append(w.rx, lab)
		delete(w.expX, lab)
	case action == 1 && len(b) >= 98:
		r := int(int64(binary.BigEndian.Uint64(b[56:64]))) // downloaded = call id
		ev := binary.BigEndian.Uint32(b[80:84])
		rq, ok := w.reqs[r]
		if !ok || rq.d != e.d {
			w.rx = append(w.rx, fmt.Sprintf("a?%d", r))
			return
		}
		if rq.cancelledInQ {
			// its context was done before the transaction began: the retransmitter may or may not have sent one copy
			return
		}
		w.seen[txid]++
		mark := ""
		if rq.hasTx && rq.txid != txid {
			mark = "!newtx"
		}
		rq.txid, rq.hasTx = txid, true
		if w.seen[txid] == 1 {
			w.start = time.Now()
		}
		lab := fmt.Sprintf("a%d.%d", r, w.seen[txid])
		w.rx = append(w.rx, lab+":"+usEvName(ev)+mark)
		delete(w.expX, lab)
	default:
		w.rx = append(w.rx, "x")
	}
}

func (w *usWorld) expRtxCn() (int, int) {
	rtx, cn := 0, 0
	for _, x := range w.dests {
		if x.state == 1 {
			rtx++
			cn++
		}
	}
	for _, rq := range w.reqs {
		if rq.state == 2 && !rq.fin {
			rtx++
		}
	}
	return rtx, cn
}

// settle waits for the expected events and goroutine counts, then renders the observation.
var usMaxSettle time.Duration

func (w *usWorld) settle(extra string) string {
	w.await()
	return w.render(extra)
}

// await waits for the expected events and goroutine counts.
func (w *usWorld) await() {
	t0 := time.Now()
	defer func() {
		if d := time.Since(t0); d > usMaxSettle {
			usMaxSettle = d
			if os.Getenv("VERIF_US_STATS") == "1" {
				fmt.Fprintf(os.Stderr, "udpshared: longest settle so far %v\n", d)
			}
		}
	}()
	dl := time.Now().Add(w.timeout())
	for len(w.expD) > 0 || len(w.expX) > 0 || w.expC > 0 {
		rem := time.Until(dl)
		if rem <= 0 {
			w.markSlow()
			break
		}
		select {
		case e := <-w.evC:
			w.absorb(e)
		case <-time.After(rem):
		}
	}
	wr, wc := w.expRtxCn()
	dl = time.Now().Add(w.timeout())
	var rtx, cn int
	for {
		rtx, cn = usCensus()
		rtx -= w.base[0]
		cn -= w.base[1]
		if rtx == wr && cn == wc {
			break
		}
		if time.Now().After(dl) {
			w.markSlow()
			break
		}
		time.Sleep(100 * time.Microsecond)
	}
	for {
		select {
		case e := <-w.evC:
			w.absorb(e)
			continue
		default:
		}
		break
	}
	w.lastRtx, w.lastCn = rtx, cn
}

// render prints what has happened since the last observation.
func (w *usWorld) render(extra string) string {
	rtx, cn := w.lastRtx, w.lastCn
	sort.Slice(w.done, func(i, j int) bool { return atoi(strings.SplitN(w.done[i], ":", 2)[0]) < atoi(strings.SplitN(w.done[j], ":", 2)[0]) })
	sort.Strings(w.rx)
	o := fmt.Sprintf("done=%s rx=%s rtx=%d cn=%d%s", joinOrDash(w.done), joinOrDash(w.rx), rtx, cn, extra+w.note)
	if len(w.pcs) > 0 {
		o += " pc=" + strings.Join(w.pcs, ",")
	}
	w.done, w.rx, w.pcs, w.note, w.expC = nil, nil, nil, "", 0
	w.expD, w.expX = map[int]bool{}, map[string]bool{}
	return o
}

// expectDone: call rq is about to return; isErr = with an error it did not cause itself (the periodical announcer
// then announces again after its back-off).
func (w *usWorld) expectDone(rq *usReq, isErr bool) {
	if !rq.fin {
		rq.fin = true
		if !rq.resultArrived {
			w.expD[rq.r] = true
		}
		if isErr && rq.periodic && w.p != nil && !w.p.closed && w.p.cur == rq {
			w.expC++
		}
	}
}

// handover waits until the run loop has taken the request of rq (or the call is over).
func (w *usWorld) handover(rq *usReq) {
	dl := time.Now().Add(w.timeout())
	for rq.ctx.n.Load() < 2 && !rq.got.Load() {
		if time.Now().After(dl) {
			w.markSlow()
			w.note += " handover-timeout"
			return
		}
		time.Sleep(20 * time.Microsecond)
	}
}

// onRequest: what the request of rq makes the transport do (expectations only).
func (w *usWorld) onRequest(rq *usReq) {
	x := w.dests[rq.d]
	switch {
	case w.tpClosed:
		w.expectDone(rq, true)
	case x.state == 0:
		x.state, x.opener, x.queued = 1, rq.r, []int{rq.r}
		rq.state = 1
		w.expX[fmt.Sprintf("c%d.1", rq.d)] = true
	case x.state == 2:
		rq.state, rq.inTable = 2, true
		w.expX[fmt.Sprintf("a%d.1", rq.r)] = true
	default:
		rq.state = 1
		x.queued = append(x.queued, rq.r)
	}
}

// onCancel: the context of rq is cancelled by its owner (harness or announcer).
func (w *usWorld) onCancel(rq *usReq) {
	if rq.fin {
		return
	}
	rq.ownCancelled = true
	x := w.dests[rq.d]
	if x.state == 1 && x.opener == rq.r {
		for _, q := range x.queued {
			w.expectDone(w.reqs[q], q != rq.r)
		}
		x.state, x.queued = 0, nil
	} else if rq.state == 1 {
		rq.cancelledInQ = true
	}
	w.expectDone(rq, false)
}

// isOpener: rq is the call a connect in flight runs under.
func (w *usWorld) isOpener(rq *usReq) bool {
	x := w.dests[rq.d]
	return !rq.fin && x.state == 1 && x.opener == rq.r
}

func usAnnounceReply(txid uint32, r int) []byte {
	np := r%3 + 1
	b := make([]byte, 20+6*np)
	binary.BigEndian.PutUint32(b[0:4], 1)
	binary.BigEndian.PutUint32(b[4:8], txid)
	binary.BigEndian.PutUint32(b[8:12], uint32(1000+r))
	binary.BigEndian.PutUint32(b[12:16], uint32(r))
	binary.BigEndian.PutUint32(b[16:20], uint32(2*r+1))
	for i := 0; i < np; i++ {
		copy(b[20+6*i:], []byte{10, 9, byte(r % 250), byte(i)})
		binary.BigEndian.PutUint16(b[24+6*i:], uint16(7000+i))
	}
	return b
}

func usConnectReply(txid uint32, d int) []byte {
	b := make([]byte, 16)
	binary.BigEndian.PutUint32(b[4:8], txid)
	binary.BigEndian.PutUint64(b[8:16], 0x1122334455667700+uint64(d))
	return b
}

// usDatagrams builds the datagrams of one reply element.
func (w *usWorld) usDatagrams(isConn bool, txid uint32, id int, kind string) [][]byte {
	ok := usAnnounceReply(txid, id)
	if isConn {
		ok = usConnectReply(txid, id)
	}
	hdr := func(action uint32) []byte {
		b := make([]byte, 8)
		binary.BigEndian.PutUint32(b[0:4], action)
		binary.BigEndian.PutUint32(b[4:8], txid)
		return b
	}
	switch kind {
	case "ok":
		return [][]byte{ok}
	case "dup":
		return [][]byte{ok, append([]byte(nil), ok...)}
	case "wtx":
		t2 := txid ^ 0x00a50000
		for w.seen[t2] > 0 {
			t2 += 0x01000193
		}
		b := append([]byte(nil), ok...)
		binary.BigEndian.PutUint32(b[4:8], t2)
		return [][]byte{b}
	case "wact":
		if isConn {
			return [][]byte{append(hdr(1), make([]byte, 12)...)}
		}
		return [][]byte{append(hdr(2), make([]byte, 18)...)}
	case "hdr":
		if isConn {
			return [][]byte{hdr(0)}
		}
		return [][]byte{hdr(1)}
	case "err":
		return [][]byte{append(hdr(3), []byte("d14:failure reason4:nopee")...)}
	case "errg":
		return [][]byte{append(hdr(3), []byte("garbage")...)}
	case "short":
		return [][]byte{ok[:4]}
	}
	return nil
}

func execUdpShared(ops []string) []string {
	var obs []string
	w := newUsWorld()
	defer w.close()
	w.expD, w.expX = map[int]bool{}, map[string]bool{}
	for _, op := range ops {
		m := kv(op)
		switch m["_"] {
		case "ann":
			r, t, d := atoi(m["r"]), atoi(m["t"]), atoi(m["d"])
			ev, okEv := usEvNames[m["ev"]]
			if _, dup := w.reqs[r]; dup || !okEv || d < 0 || d > 3 || r >= 100 {
				obs = append(obs, "bad-op")
				continue
			}
			x := w.dest(d)
			inner, cancel := context.WithCancel(context.Background())
			rq := &usReq{r: r, t: t, d: d, ev: ev, ctx: &usCtx{Context: inner}, cancel: cancel}
			w.reqs[r] = rq
			raw := fmt.Sprintf("udp://127.0.0.1:%d/announce", x.port)
			u, _ := url.Parse(raw)
			trk := udptracker.New(raw, u, w.tp)
			tor := tracker.Torrent{Port: 6000 + t, BytesDownloaded: int64(r), BytesLeft: 1000, BytesUploaded: int64(t)}
			for i := range tor.InfoHash {
				tor.InfoHash[i] = byte(t)
				tor.PeerID[i] = byte(0x40 + t)
			}
			go func() {
				resp, err := trk.Announce(rq.ctx, tracker.AnnounceRequest{Torrent: tor, Event: ev, NumWant: 50})
				rq.got.Store(true)
				w.evC <- usEvent{isRes: true, r: r, resp: resp, err: err}
			}()
			w.handover(rq)
			w.onRequest(rq)
			obs = append(obs, w.settle(""))
		case "cancel":
			if atoi(m["r"]) >= 100 {
				obs = append(obs, "bad-op") // the announcer owns the contexts of its calls
				continue
			}
			rq, ok := w.reqs[atoi(m["r"])]
			if !ok {
				obs = append(obs, w.settle(""))
				continue
			}
			w.onCancel(rq)
			rq.cancel()
			obs = append(obs, w.settle(""))
		case "reply":
			type elem struct {
				isConn bool
				id     int
				txid   uint32
				kind   string
			}
			var els []elem
			nt := 0
			for _, e := range commaList(m["x"]) {
				f := strings.SplitN(e, ":", 2)
				if len(f) != 2 || len(f[0]) < 2 {
					nt++
					continue
				}
				id := atoi(f[0][1:])
				switch f[0][0] {
				case 'c':
					if x, ok := w.dests[id]; ok && x.hasConn {
						els = append(els, elem{true, id, x.connTx, f[1]})
					} else {
						nt++
					}
				case 'a':
					if rq, ok := w.reqs[id]; ok && rq.hasTx && !rq.cancelledInQ {
						els = append(els, elem{false, id, rq.txid, f[1]})
					} else {
						nt++
					}
				default:
					nt++
				}
			}
			noEffect := false
			for _, e := range els {
				var from *usDest
				if e.isConn {
					from = w.dests[e.id]
				} else {
					from = w.dests[w.reqs[e.id].d]
				}
				dgs := w.usDatagrams(e.isConn, e.txid, e.id, e.kind)
				if dgs == nil {
					nt++
					continue
				}
				for _, dg := range dgs {
					_, _ = from.pc.WriteToUDP(dg, w.client)
				}
				// expectations, datagram by datagram
				if e.kind == "wtx" || e.kind == "short" {
					noEffect = true
					continue
				}
				good := e.kind == "ok" || e.kind == "dup"
				if e.isConn {
					x := from
					if x.state != 1 || x.connTx != e.txid {
						noEffect = true
						continue
					}
					if good {
						x.state = 2
						for _, q := range x.queued {
							rq := w.reqs[q]
							if rq.fin {
								continue
							}
							rq.state, rq.inTable = 2, true
							w.expX[fmt.Sprintf("a%d.1", q)] = true
						}
					} else {
						x.state = 0
						for _, q := range x.queued {
							w.expectDone(w.reqs[q], true)
						}
					}
					x.queued = nil
				} else {
					rq := w.reqs[e.id]
					if !rq.inTable {
						noEffect = true
						continue
					}
					rq.inTable = false
					w.expectDone(rq, !good)
				}
			}
			if noEffect {
				time.Sleep(2 * time.Millisecond) // a wrongly accepted datagram gets the time to show up in this op
			}
			extra := ""
			if nt > 0 {
				extra = fmt.Sprintf(" nt=%d", nt)
			}
			obs = append(obs, w.settle(extra))
		case "wait":
			if w.waited {
				obs = append(obs, "bad-op")
				continue
			}
			w.waited = true
			for _, x := range w.dests {
				if x.state == 1 && x.hasConn {
					w.expX[fmt.Sprintf("c%d.%d", x.d, w.seen[x.connTx]+1)] = true
				}
			}
			for _, rq := range w.reqs {
				if rq.state == 2 && !rq.fin && rq.hasTx {
					w.expX[fmt.Sprintf("a%d.%d", rq.r, w.seen[rq.txid]+1)] = true
				}
			}
			// every transaction begun so far is retransmitted once (15 s after its first copy), none twice (45 s)
			if d := time.Until(w.start.Add(16 * time.Second)); d > 0 {
				time.Sleep(d)
			}
			obs = append(obs, w.settle(""))
		case "close":
			if !w.tpClosed {
				if w.p != nil && !w.p.closed {
					if w.p.cur != nil {
						w.onCancel(w.p.cur)
					}
					w.p.a.Close()
					w.p.closed = true
					w.await() // the announcer's cancellation has done its work before the transport goes
				}
				w.tp.Close()
				w.tpClosed = true
				for _, rq := range w.reqs {
					w.expectDone(rq, false)
					rq.inTable = false
				}
				for _, x := range w.dests {
					x.state, x.queued = 0, nil
				}
			}
			obs = append(obs, w.settle(""))
		case "pstart":
			t, d := atoi(m["t"]), atoi(m["d"])
			if w.p != nil || d < 0 || d > 3 || w.tpClosed {
				obs = append(obs, "bad-op")
				continue
			}
			x := w.dest(d)
			raw := fmt.Sprintf("udp://127.0.0.1:%d/announce", x.port)
			u, _ := url.Parse(raw)
			p := &usPeriodic{t: t, d: d, completedC: make(chan struct{})}
			tor := tracker.Torrent{Port: 6000 + t, BytesLeft: 1000, BytesUploaded: int64(t)}
			for i := range tor.InfoHash {
				tor.InfoHash[i] = byte(t)
				tor.PeerID[i] = byte(0x40 + t)
			}
			trk := &usPTracker{w: w, real: udptracker.New(raw, u, w.tp), p: p}
			p.a = announcer.NewPeriodicalAnnouncer(trk, 50, time.Minute, func() tracker.Torrent { return tor }, p.completedC, make(chan []*net.TCPAddr, 256), logger.New("verif"))
			p.a.VerifSetBackoff(30*time.Millisecond, 240*time.Millisecond)
			w.p = p
			w.expC++
			go p.a.Run()
			obs = append(obs, w.settle(""))
		case "pcomplete":
			p := w.p
			if p == nil || p.closed || (p.cur != nil && w.isOpener(p.cur) && os.Getenv("VERIF_US_RACE_PROBE") == "") {
				obs = append(obs, "bad-op")
				continue
			}
			if !p.completed {
				p.completed = true
				if p.cur != nil {
					w.onCancel(p.cur) // the announcer cancels an announce in flight
				}
				w.expC++
				close(p.completedC)
			}
			obs = append(obs, w.settle(""))
		case "pclose":
			p := w.p
			if p == nil || p.closed {
				obs = append(obs, "bad-op")
				continue
			}
			if p.cur != nil {
				w.onCancel(p.cur)
			}
			p.a.Close()
			p.closed = true
			obs = append(obs, w.settle(""))
		default:
			obs = append(obs, "bad-op")
		}
	}
	return obs
}

// ---- generator ----

type usGenReq struct {
	d, t  int
	state int  // 1 queued 2 sent 3 finished
	ok    bool // finished by a good reply
	own   bool // finished by its owner
}

func genUdpShared(r *Rng, n int, tier string) []Case {
	var cases []Case
	kindsConn := []string{"ok", "ok", "ok", "ok", "ok", "ok", "dup", "err", "errg", "wact", "hdr", "wtx", "short"}
	kindsAnn := []string{"ok", "ok", "ok", "ok", "ok", "dup", "dup", "err", "errg", "wact", "hdr", "wtx", "short"}
	for i := 0; i < n; i++ {
		nT := r.Range(1, 4)
		nD := 1
		if r.Chance(20) {
			nD = 2
		}
		var ops []string
		reqs := map[int]*usGenReq{}
		order := []int{}
		dst := map[int]int{}     // 0 none 1 connecting 2 connected
		opener := map[int]int{}  // dest -> call
		nAnn := map[[2]int]int{} // (t,d) -> announces so far
		completed := map[[2]int]bool{}
		closed := false
		next := 0
		longWait := tier == "thorough" && i < 12
		ann := func(d int) {
			t := r.Range(1, nT)
			ev := "none"
			k := [2]int{t, d}
			switch {
			case nAnn[k] == 0:
				ev = "started"
			case !completed[k] && r.Chance(30):
				ev = "completed"
				completed[k] = true
			}
			nAnn[k]++
			ops = append(ops, fmt.Sprintf("ann r=%d t=%d d=%d ev=%s", next, t, d, ev))
			g := &usGenReq{d: d, t: t}
			switch {
			case closed:
				g.state = 3
			case dst[d] == 0:
				dst[d], opener[d], g.state = 1, next, 1
			case dst[d] == 1:
				g.state = 1
			default:
				g.state = 2
			}
			reqs[next] = g
			order = append(order, next)
			next++
		}
		pick := func(f func(id int, g *usGenReq) bool) (int, bool) {
			var c []int
			for _, id := range order {
				if f(id, reqs[id]) {
					c = append(c, id)
				}
			}
			if len(c) == 0 {
				return 0, false
			}
			return c[r.Intn(len(c))], true
		}
		connReply := func(d int, kind string) {
			if dst[d] != 1 {
				return
			}
			switch kind {
			case "wtx", "short":
			case "ok", "dup":
				dst[d] = 2
				for _, g := range reqs {
					if g.d == d && g.state == 1 {
						g.state = 2
					}
				}
			default:
				dst[d] = 0
				for _, g := range reqs {
					if g.d == d && g.state == 1 {
						g.state = 3
					}
				}
			}
		}
		cancel := func(id int) {
			g := reqs[id]
			ops = append(ops, fmt.Sprintf("cancel r=%d", id))
			if g.state == 3 {
				return
			}
			if g.state == 1 && dst[g.d] == 1 && opener[g.d] == id {
				dst[g.d] = 0
				for _, h := range reqs {
					if h.d == g.d && h.state == 1 {
						h.state = 3
					}
				}
			}
			g.state, g.own = 3, true
		}
		answer := func(id int, kind string) {
			if g, ok := reqs[id]; ok && g.state == 2 && kind != "wtx" && kind != "short" {
				g.state, g.ok = 3, kind == "ok" || kind == "dup"
			}
		}
		// the periodical announcer (at most one per case): calls 100, 101, …; pSync starts the retry after a failure
		pOn, pClosed, pDone, pT, pD, pK, pCur := false, false, false, 0, 0, 0, -1
		pCall := func() {
			id := 100 + pK
			pK++
			g := &usGenReq{d: pD, t: pT}
			switch {
			case dst[pD] == 0:
				dst[pD], opener[pD], g.state = 1, id, 1
			case dst[pD] == 1:
				g.state = 1
			default:
				g.state = 2
			}
			reqs[id] = g
			order = append(order, id)
			pCur = id
		}
		pSync := func() {
			for k := 0; k < 3 && pOn && !pClosed && !closed && pCur >= 0; k++ {
				if g := reqs[pCur]; g.state == 3 && !g.ok && !g.own {
					pCall()
				} else {
					break
				}
			}
		}
		abort := func(id int) { // the owner of call id gives up
			g := reqs[id]
			if g.state == 3 {
				return
			}
			if g.state == 1 && dst[g.d] == 1 && opener[g.d] == id {
				dst[g.d] = 0
				for _, h := range reqs {
					if h.d == g.d && h.state == 1 {
						h.state = 3
					}
				}
			}
			g.state, g.own = 3, true
		}
		wantP := r.Chance(20)
		pAt := r.Intn(5)
		steps := r.Range(3, 14)
		if r.Chance(25) {
			// the shape "k announces queue behind one connect, then something happens to the connect"
			d := r.Intn(nD)
			for k := r.Range(2, 4); k > 0; k-- {
				ann(d)
			}
			switch r.Intn(4) {
			case 0, 1:
				cancel(opener[d])
			case 2:
				kind := r.PickS("err", "errg", "wact", "hdr")
				ops = append(ops, fmt.Sprintf("reply x=c%d:%s", d, kind))
				connReply(d, kind)
			default:
				ops = append(ops, fmt.Sprintf("reply x=c%d:ok", d))
				connReply(d, "ok")
			}
		}
		for s := 0; s < steps; s++ {
			pSync()
			if wantP && !pOn && !closed && s >= pAt {
				pOn, pT, pD = true, r.Range(1, nT), r.Intn(nD)
				ops = append(ops, fmt.Sprintf("pstart t=%d d=%d", pT, pD))
				pCall()
				continue
			}
			if pOn && !pClosed && !closed && r.Chance(12) {
				g := reqs[pCur]
				if r.Chance(35) {
					ops = append(ops, "pclose")
					abort(pCur)
					pClosed = true
				} else if !pDone && !(g.state == 1 && dst[g.d] == 1 && opener[g.d] == pCur) {
					ops = append(ops, "pcomplete")
					abort(pCur)
					pDone = true
					pCall()
				}
				continue
			}
			x := r.Intn(100)
			switch {
			case x < 28 && next < 9:
				ann(r.Intn(nD))
			case x < 48:
				d := r.Intn(nD)
				if dst[d] == 0 && r.Chance(70) {
					ann(d)
					continue
				}
				kind := kindsConn[r.Intn(len(kindsConn))]
				ops = append(ops, fmt.Sprintf("reply x=c%d:%s", d, kind))
				connReply(d, kind)
			case x < 62:
				id, ok := pick(func(_ int, g *usGenReq) bool { return g.state == 2 })
				if !ok {
					id, ok = pick(func(_ int, g *usGenReq) bool { return true })
				}
				if !ok {
					continue
				}
				kind := kindsAnn[r.Intn(len(kindsAnn))]
				ops = append(ops, fmt.Sprintf("reply x=a%d:%s", id, kind))
				answer(id, kind)
			case x < 78:
				// burst: every outstanding announce of one destination answered back to back, strays in between
				d := r.Intn(nD)
				var els []string
				for _, id := range order {
					g := reqs[id]
					if g.d != d || g.state != 2 {
						continue
					}
					if r.Chance(15) {
						els = append(els, fmt.Sprintf("a%d:%s", id, r.PickS("wtx", "short")))
					}
					kind := "ok"
					if r.Chance(25) {
						kind = kindsAnn[r.Intn(len(kindsAnn))]
					}
					els = append(els, fmt.Sprintf("a%d:%s", id, kind))
					answer(id, kind)
				}
				if r.Chance(20) {
					els = append(els, fmt.Sprintf("c%d:%s", d, r.PickS("ok", "dup", "err")))
				}
				if len(els) == 0 {
					continue
				}
				ops = append(ops, "reply x="+strings.Join(els, ","))
			case x < 92:
				var id int
				var ok bool
				switch r.Intn(6) {
				case 0, 1:
					id, ok = pick(func(id int, g *usGenReq) bool { return id < 100 && g.state == 1 && dst[g.d] == 1 && opener[g.d] == id })
				case 2:
					id, ok = pick(func(id int, g *usGenReq) bool { return id < 100 && g.state == 1 && opener[g.d] != id })
				case 3, 4:
					id, ok = pick(func(id int, g *usGenReq) bool { return id < 100 && g.state == 2 })
				}
				if !ok && r.Chance(40) {
					id, ok = pick(func(id int, _ *usGenReq) bool { return id < 100 })
				}
				if ok {
					cancel(id)
				}
			case x < 93:
				ops = append(ops, "close")
				closed, pClosed = true, true
				for _, g := range reqs {
					g.state = 3
				}
				for d := range dst {
					dst[d] = 0
				}
			default:
				// stale or unknown targets
				tk, id, kind := r.PickS("a", "c"), r.Intn(next+2), r.PickS("ok", "err", "dup")
				ops = append(ops, fmt.Sprintf("reply x=%s%d:%s", tk, id, kind))
				if tk == "c" {
					connReply(id, kind)
				} else {
					answer(id, kind)
				}
			}
		}
		if longWait && !closed {
			// make sure the wait sees an answered and an unanswered announce whose callers' contexts are alive
			if dst[0] == 0 {
				ann(0)
			}
			if dst[0] == 1 {
				ops = append(ops, "reply x=c0:ok")
				connReply(0, "ok")
			}
			ann(0)
			ann(0)
			ops = append(ops, fmt.Sprintf("reply x=a%d:ok", next-2))
			answer(next-2, "ok")
		}
		if longWait {
			ops = append(ops, "wait")
			// and then everything still outstanding is answered
			var els []string
			for d := 0; d < nD; d++ {
				if dst[d] == 1 {
					els = append(els, fmt.Sprintf("c%d:ok", d))
				}
			}
			if len(els) > 0 {
				ops = append(ops, "reply x="+strings.Join(els, ","))
			}
		}
		cases = append(cases, Case{ID: fmt.Sprintf("udpshared-%d", i+1), Ops: ops})
	}
	return cases
}
