//go:build verif

package main

import (
	"fmt"
	"strings"

	"github.com/cenkalti/rain/v2/torrent"
)

// Loop suites (DESIGN 4.3): every case starts with a `new …` op that builds a world (real Session + torrent,
// in-memory gated storage); the following ops are events delivered to the real event loop one at a time.
// All loop suites share the executor; they differ in their generators.

type loopStepper struct{ w *torrent.VerifWorld }

func (l *loopStepper) Step(op string) string {
	if strings.HasPrefix(op, "new ") {
		if l.w != nil {
			l.w.Close()
		}
		var o string
		l.w, o = torrent.VerifNewWorld(op)
		return o
	}
	if l.w == nil {
		return "skipped:no-world"
	}
	return l.w.Op(op)
}

func (l *loopStepper) Close() {
	if l.w != nil {
		l.w.Close()
		l.w = nil
	}
}

func newLoopStepper() Stepper { return &loopStepper{} }

func init() {
	register(&Suite{Name: "loop-dl", NewStepper: newLoopStepper, GenStep: genLoopDL})
}

type layout struct {
	pl    int
	lens  []int
	pads  []bool
	total int
}

func (l layout) filesArg() string {
	var parts []string
	for i := range l.lens {
		parts = append(parts, fmt.Sprintf("%d:%s", l.lens[i], b01(l.pads[i])))
	}
	return strings.Join(parts, ",")
}

func (l layout) numPieces() int { return (l.total + l.pl - 1) / l.pl }

// dataBytes is the number of bytes that live in real (non-padding) files. With none, verification reads
// nothing and a read gate cannot hold it.
func (l layout) dataBytes() int {
	n := 0
	for i, ln := range l.lens {
		if !l.pads[i] {
			n += ln
		}
	}
	return n
}

// readGate returns "read", or "open" for a layout whose verification never reads.
func (l layout) readGate() string {
	if l.dataBytes() == 0 {
		return "open"
	}
	return "read"
}

func (l layout) pieceLen(i int) int {
	if (i+1)*l.pl <= l.total {
		return l.pl
	}
	return l.total - i*l.pl
}

// blocks of piece i: the non-padding runs cut at 16 KiB (harness's own computation, used to script peers).
func (l layout) blocks(i int) [][2]int {
	start, end := i*l.pl, i*l.pl+l.pieceLen(i)
	var out [][2]int
	off := 0
	cur := -1
	curLen := 0
	flush := func() {
		if cur >= 0 && curLen > 0 {
			out = append(out, [2]int{cur, curLen})
		}
		cur, curLen = -1, 0
	}
	for fi, fl := range l.lens {
		fs, fe := off, off+fl
		off = fe
		s, e := max(fs, start), min(fe, end)
		if s >= e {
			continue
		}
		if l.pads[fi] {
			flush()
			continue
		}
		for s < e {
			if cur < 0 {
				cur, curLen = s-start, 0
			}
			n := min(e-s, 16384-curLen)
			curLen += n
			s += n
			if curLen == 16384 {
				flush()
			}
		}
	}
	flush()
	return out
}

// paddingOnly: every byte of piece i belongs to a padding file (BEP 47).
func (l layout) paddingOnly(i int) bool {
	start, end := i*l.pl, i*l.pl+l.pieceLen(i)
	off := 0
	for fi, fl := range l.lens {
		fs, fe := off, off+fl
		off = fe
		if max(fs, start) < min(fe, end) && !l.pads[fi] {
			return false
		}
	}
	return true
}

// badPadArg: for a layout that has a padding-only piece (and no empty file), sometimes the option that makes the
// generated torrent record a wrong SHA-1 for these pieces: such a piece can never be verified, so it must never be
// reported as held and the torrent never completes.
func (l layout) badPadArg(r *Rng) string {
	has := false
	for i := 0; i < l.numPieces(); i++ {
		has = has || l.paddingOnly(i)
	}
	for _, fl := range l.lens {
		if fl == 0 {
			has = false
		}
	}
	if !has || !r.Chance(40) {
		return ""
	}
	return fmt.Sprintf(" badpadhash=%d", r.Pick(1, 1, 2))
}

func genLayout(r *Rng) layout {
	var l layout
	if r.Chance(60) {
		l.pl = r.Pick(4, 8, 16, 32, 64)
	} else {
		l.pl = r.Pick(16384, 32768, 16384+4096, 49152, 65536)
	}
	if r.Chance(12) {
		// a layout with a padding file that covers at least one whole piece: data, padding up to the next piece
		// boundary plus one or two whole pieces, sometimes more data behind it
		d := r.Pick(1, l.pl-1, l.pl, l.pl+1, r.Range(1, 2*l.pl))
		l.lens = []int{d, (l.pl-d%l.pl)%l.pl + l.pl*r.Pick(1, 2, 2, 3)}
		l.pads = []bool{false, true}
		if r.Chance(60) {
			l.lens = append(l.lens, r.Pick(1, l.pl-1, l.pl, r.Range(1, 2*l.pl)))
			l.pads = append(l.pads, false)
		}
		for _, x := range l.lens {
			l.total += x
		}
		for l.numPieces() > 8 {
			l.pl *= 2
		}
		return l
	}
	nf := r.Range(1, 4)
	for i := 0; i < nf; i++ {
		pad := i > 0 && r.Chance(30)
		var ln int
		if pad {
			ln = r.Pick(1, l.pl/2, l.pl-1, r.Range(1, l.pl))
		} else {
			ln = r.Pick(0, 1, l.pl-1, l.pl, l.pl+1, 2*l.pl, r.Range(1, 3*l.pl))
		}
		if ln < 0 {
			ln = 0
		}
		l.lens = append(l.lens, ln)
		l.pads = append(l.pads, pad)
		l.total += ln
	}
	if l.total == 0 {
		l.lens[0] = l.pl + 1
		l.pads[0] = false
		l.total = l.pl + 1
	}
	// keep the number of pieces small
	for l.numPieces() > 8 {
		l.pl *= 2
	}
	return l
}

// obsKV splits an observation into its key=value tokens (the leading status word, if any, under "_").
func obsKV(o string) map[string]string {
	m := map[string]string{}
	for i, t := range strings.Fields(o) {
		if j := strings.IndexByte(t, '='); j >= 0 {
			m[t[:j]] = t[j+1:]
		} else if i == 0 {
			m["_"] = t
		}
	}
	return m
}

type scriptPeer struct {
	k        int
	kind     string // honest | corrupt | dup | stray | short | flaky
	pending  [][3]int
	closed   bool
	unchoked bool
}

// absorb records the requests / cancels the client sent to each scripted peer.
func absorb(peers []*scriptPeer, o string) {
	m := obsKV(o)
	live := map[string]bool{}
	for _, k := range commaList(m["peers"]) {
		live[k] = true
	}
	for _, p := range peers {
		if _, ok := m["peers"]; ok && !live[fmt.Sprint(p.k)] && p.k > 0 {
			p.closed = true
		}
		for _, msg := range commaList(m[fmt.Sprintf("p%d", p.k)]) {
			f := strings.Split(msg, ":")
			if len(f) == 4 && f[0] == "request" {
				p.pending = append(p.pending, [3]int{atoi(f[1]), atoi(f[2]), atoi(f[3])})
			}
			if len(f) == 4 && f[0] == "cancel" {
				for i, q := range p.pending {
					if q == [3]int{atoi(f[1]), atoi(f[2]), atoi(f[3])} {
						p.pending = append(p.pending[:i], p.pending[i+1:]...)
						break
					}
				}
			}
		}
	}
}

// genLoopDL: download histories against scripted peers that answer the client's actual requests:
// honest, corrupting, duplicating, stray (unrequested / out of range), short (truncated) and flaky
// (choke / disconnect) peers, interleaved with gated writes and stop/start commands.
func genLoopDL(r *Rng, idx int, tier string, step func(op string) string) {
	l := genLayout(r)
	o := step(fmt.Sprintf("new pl=%d files=%s seq=%s cfg.AllowedFastSet=%d cfg.EndgameMaxDuplicateDownloads=%d cfg.MaxPeerAccept=%d%s",
		l.pl, l.filesArg(), b01(r.Chance(30)), r.Pick(0, 2, 2, 10), r.Pick(1, 2, 20), r.Pick(2, 3, 20, 20), l.badPadArg(r)))
	if !strings.HasPrefix(o, "ok") {
		return
	}
	step("start")
	np := r.Range(1, 4)
	kinds := []string{"honest", "honest", "corrupt", "dup", "stray", "short", "flaky"}
	var peers []*scriptPeer
	addPeer := func(k int, kind string) {
		p := &scriptPeer{k: k, kind: kind}
		peers = append(peers, p)
		extra := ""
		if r.Chance(8) {
			extra = " ih=bad"
		}
		if r.Chance(15) && k > 1 {
			// same IP address as an earlier peer (still connected, closed, or banned for corrupt data)
			j := r.Range(1, k-1)
			extra += fmt.Sprintf(" ip=10.0.%d.%d", j/250, j%250+1)
		}
		o := step(fmt.Sprintf("peer k=%d fast=%s ext=%s%s", k, b01(r.Chance(60)), b01(r.Chance(50)), extra))
		if !strings.HasPrefix(o, "accepted") {
			p.closed = true
			return
		}
		switch r.Intn(3) {
		case 0:
			absorb(peers, step(fmt.Sprintf("msg p=%d t=haveall", k)))
		case 1:
			bits := []byte(strings.Repeat("1", l.numPieces()))
			if r.Chance(30) {
				bits[r.Intn(len(bits))] = '0'
			}
			absorb(peers, step(fmt.Sprintf("msg p=%d t=bitfield bits=%s", k, bits)))
		default:
			for i := 0; i < l.numPieces(); i++ {
				absorb(peers, step(fmt.Sprintf("msg p=%d t=have i=%d", k, i)))
			}
		}
		if r.Chance(85) {
			absorb(peers, step(fmt.Sprintf("msg p=%d t=unchoke", k)))
			p.unchoked = true
		}
	}
	for k := 1; k <= np; k++ {
		kind := kinds[r.Intn(len(kinds))]
		if k == 1 && r.Chance(70) {
			kind = "honest"
		}
		addPeer(k, kind)
	}
	nextK := np + 1
	gated := false
	budget := 12 + 6*l.numPieces()
	if tier == "thorough" {
		budget *= 2
	}
	for s := 0; s < budget; s++ {
		var cand []*scriptPeer
		for _, p := range peers {
			if !p.closed {
				cand = append(cand, p)
			}
		}
		roll := r.Intn(100)
		switch {
		case roll < 4:
			absorb(peers, step("stop"))
			for _, p := range peers {
				p.closed = true
				p.pending = nil
			}
			if gated && r.Chance(50) {
				absorb(peers, step("gate kind=write on=0"))
				gated = false
			}
			absorb(peers, step("start"))
			continue
		case roll < 8 && !gated:
			step("gate kind=write on=1")
			gated = true
			continue
		case roll < 16 && gated:
			absorb(peers, step("gate kind=write on=0"))
			gated = false
			continue
		case roll < 20 && nextK <= 6:
			addPeer(nextK, kinds[r.Intn(len(kinds))])
			nextK++
			continue
		}
		if len(cand) == 0 {
			if nextK <= 6 {
				addPeer(nextK, "honest")
				nextK++
				continue
			}
			break
		}
		p := cand[r.Intn(len(cand))]
		if r.Chance(4) {
			absorb(peers, step(fmt.Sprintf("snubclose p=%d", p.k)))
			p.closed = true
			p.pending = nil
			continue
		}
		if r.Chance(6) {
			// the peer asks for data (interested or not, choked or not, for a piece we may not have yet)
			if r.Chance(40) {
				absorb(peers, step(fmt.Sprintf("msg p=%d t=interested", p.k)))
			}
			i := r.Intn(l.numPieces() + 1)
			absorb(peers, step(fmt.Sprintf("msg p=%d t=request i=%d b=%d l=%d", p.k, i, r.Pick(0, 0, 1, l.pl/2), r.Pick(1, 16, min(l.pl, 16384), 16384))))
			continue
		}
		if !p.unchoked && r.Chance(60) {
			absorb(peers, step(fmt.Sprintf("msg p=%d t=unchoke", p.k)))
			p.unchoked = true
			continue
		}
		if p.unchoked && len(p.pending) > 0 && r.Chance(7) {
			// a choke while answers are still in flight: they keep arriving (a peer without the fast extension
			// does not take back what it has already queued), then the peer unchokes again
			absorb(peers, step(fmt.Sprintf("msg p=%d t=choke", p.k)))
			inflight := p.pending
			p.pending = nil
			for _, q := range inflight {
				absorb(peers, step(fmt.Sprintf("msg p=%d t=piece i=%d b=%d l=%d data=true", p.k, q[0], q[1], q[2])))
			}
			absorb(peers, step(fmt.Sprintf("msg p=%d t=unchoke", p.k)))
			continue
		}
		if p.kind == "flaky" && r.Chance(25) {
			switch r.Intn(3) {
			case 0:
				absorb(peers, step(fmt.Sprintf("msg p=%d t=choke", p.k)))
				p.unchoked = false
				if r.Chance(50) {
					p.pending = nil // a choking peer drops the requests (no fast extension semantics assumed)
				}
			case 1:
				absorb(peers, step(fmt.Sprintf("disconnect p=%d", p.k)))
				p.closed = true
			default:
				if r.Chance(50) {
					// the peer's own snub timer fires while the loop is busy and the connection ends at the same time
					absorb(peers, step(fmt.Sprintf("snubclose p=%d", p.k)))
					p.closed = true
				} else {
					absorb(peers, step(fmt.Sprintf("snub p=%d", p.k)))
				}
			}
			continue
		}
		if len(p.pending) == 0 {
			if p.kind == "stray" || r.Chance(5) {
				i := r.Intn(l.numPieces() + 1)
				absorb(peers, step(fmt.Sprintf("msg p=%d t=piece i=%d b=%d l=%d data=true", p.k, i, r.Pick(0, 1, l.pl/2), r.Pick(1, 16, l.pl, 16384))))
			}
			continue
		}
		qi := 0
		if r.Chance(30) {
			qi = r.Intn(len(p.pending)) // reordered delivery
		}
		q := p.pending[qi]
		p.pending = append(p.pending[:qi], p.pending[qi+1:]...)
		data := "true"
		i, b, ln := q[0], q[1], q[2]
		switch p.kind {
		case "corrupt":
			if r.Chance(40) {
				data = r.Pick2("flip", "inv")
			}
		case "short":
			if r.Chance(30) && ln > 1 {
				ln--
			}
		case "stray":
			if r.Chance(30) {
				b += r.Pick(1, ln)
			}
		}
		hangupPct := 10
		if data != "true" {
			hangupPct = 50 // corrupt senders like to leave before the verdict
		}
		if !gated && r.Chance(hangupPct) {
			// the peer hangs up right behind this block: if the block completes a piece, the disconnect and the
			// hash verdict race in the loop; a corrupt sender must be banned in either order
			o := step(fmt.Sprintf("msg p=%d t=piece i=%d b=%d l=%d data=%s hangup=1", p.k, i, b, ln, data))
			absorb(peers, o)
			if strings.HasPrefix(o, "hungup") {
				p.closed = true
				p.pending = nil
			}
			continue
		}
		absorb(peers, step(fmt.Sprintf("msg p=%d t=piece i=%d b=%d l=%d data=%s", p.k, i, b, ln, data)))
		if gated && !p.closed && r.Chance(25) {
			// the peer hangs up while the piece it has just completed may still be waiting for its hash verdict
			// and write (the gate holds the writer): a corrupt sender must be banned all the same
			absorb(peers, step(fmt.Sprintf("disconnect p=%d", p.k)))
			p.closed = true
			continue
		}
		if p.kind == "dup" && r.Chance(50) {
			absorb(peers, step(fmt.Sprintf("msg p=%d t=piece i=%d b=%d l=%d data=%s", p.k, i, b, ln, data)))
		}
	}
	if gated {
		absorb(peers, step("gate kind=write on=0"))
	}
	step("obs")
	// at the end one connected peer asks for the beginning of every piece, whatever its choke state: what was
	// downloaded meanwhile may be served only to an unchoked peer or under a grant that was really announced
	for _, p := range peers {
		if p.closed {
			continue
		}
		if r.Chance(50) {
			absorb(peers, step(fmt.Sprintf("msg p=%d t=interested", p.k)))
		}
		for i := 0; i < l.numPieces(); i++ {
			absorb(peers, step(fmt.Sprintf("msg p=%d t=request i=%d b=0 l=%d", p.k, i, r.Pick(1, 8, 16))))
		}
		break
	}
}

func init() {
	register(&Suite{Name: "lifecycle", NewStepper: newLoopStepper, GenStep: genLifecycle})
}

// honestServe answers up to max pending requests of peer p with the true bytes.
func honestServe(peers []*scriptPeer, p *scriptPeer, max int, step func(string) string) int {
	n := 0
	for n < max && len(p.pending) > 0 && !p.closed {
		q := p.pending[0]
		p.pending = p.pending[1:]
		o := step(fmt.Sprintf("msg p=%d t=piece i=%d b=%d l=%d data=true", p.k, q[0], q[1], q[2]))
		absorb(peers, o)
		if strings.HasPrefix(o, "skipped") || strings.HasPrefix(o, "hang") || strings.HasPrefix(o, "dead") {
			break
		}
		n++
	}
	return n
}

// genLifecycle: command sequences (start/stop/verify), gates on allocation / verification / piece writes,
// external file mutations while stopped, partial downloads — and at the end an honest seed with which a
// restarted torrent must converge to complete, correct files.
func genLifecycle(r *Rng, idx int, tier string, step func(op string) string) {
	l := genLayout(r)
	for l.numPieces() > 5 {
		l.pl *= 2
	}
	ntrk := 0
	stopAfter := r.Chance(10)
	if !stopAfter && r.Chance(35) {
		ntrk = r.Range(1, 2) // in-process HTTP trackers that can be told not to answer the `stopped` event
	}
	// sometimes the data is already on disk: the first start verifies it and the torrent is complete at once
	seeded := r.Chance(25)
	// sometimes addresses of peers that never answer the handshake are added while the dial limit is small: one
	// outgoing handshake stays pending and the other addresses stay queued until the torrent stops
	dialHold := !seeded && r.Chance(20)
	dialCfg := ""
	if dialHold {
		dialCfg = fmt.Sprintf(" cfg.MaxPeerDial=%d", r.Pick(1, 1, 2))
	}
	o := step(fmt.Sprintf("new pl=%d files=%s seq=0 cfg.AllowedFastSet=0 stopafter=%s trackers=%d seeded=%s%s%s", l.pl, l.filesArg(), b01(stopAfter), ntrk, b01(seeded), dialCfg, l.badPadArg(r)))
	if !strings.HasPrefix(o, "ok") {
		return
	}
	var peers []*scriptPeer
	nextK := 1
	gates := map[string]bool{}
	dialed := false
	status := func(o string) string { return obsKV(o)["st"] }
	last := o
	do := func(op string) string {
		last = step(op)
		absorb(peers, last)
		if st := status(last); st == "Stopped" || st == "Stopping" || st == "Allocating" || st == "Verifying" {
			for _, p := range peers {
				p.pending = nil
			}
		}
		return last
	}
	attach := func() *scriptPeer {
		p := &scriptPeer{k: nextK, kind: "honest"}
		nextK++
		peers = append(peers, p)
		o := do(fmt.Sprintf("peer k=%d fast=%s ext=0", p.k, b01(r.Chance(50))))
		if !strings.HasPrefix(o, "accepted") {
			p.closed = true
			return p
		}
		do(fmt.Sprintf("msg p=%d t=haveall", p.k))
		do(fmt.Sprintf("msg p=%d t=unchoke", p.k))
		p.unchoked = true
		return p
	}
	steps := r.Range(4, 14)
	if tier == "thorough" {
		steps = r.Range(6, 24)
	}
	// Storage faults and schedules of the piece writer at one point of some histories:
	//  1 a verification is requested while `Open` fails (every file, or from one file on)
	//  2 a file vanished while stopped and the `Open` of a later file fails at the next start (the allocator has
	//    re-created the missing one by then); the process dies; the storage recovers; restart
	//  3 the piece writer has stored a piece but has not reported yet when the torrent is stopped / re-verified
	//    and started again: its result reaches the next run
	//  4 the storage refuses a piece (write error): the torrent stops with the error; started again it must go on
	special, specialAt := 0, -1
	if r.Chance(36) {
		special, specialAt = r.Range(1, 4), r.Intn(steps)
	}
	ndata := 0
	for i := range l.lens {
		if !l.pads[i] {
			ndata++
		}
	}
	waitStop := func() {
		if ntrk > 0 {
			do("waitstop")
		}
	}
	for s := 0; s < steps; s++ {
		if strings.HasPrefix(last, "hang") || strings.HasPrefix(last, "dead") || strings.HasPrefix(last, "panic") {
			return
		}
		st := status(last)
		roll := r.Intn(100)
		switch {
		case s == specialAt && special == 1:
			at := ""
			if r.Chance(50) {
				at = fmt.Sprintf(" at=%d", r.Intn(ndata+1))
			}
			do("gate kind=failopen on=1" + at)
			do("verify")
			waitStop()
			do("obs")
			if r.Chance(50) {
				do("start")
				waitStop()
			}
			do("gate kind=failopen on=0")
		case s == specialAt && special == 2 && l.dataBytes() > 0:
			if st != "Stopped" {
				do("stop")
				waitStop()
			}
			if status(last) == "Stopped" {
				do(fmt.Sprintf("mutate file=%s how=delete off=0", r.Pick2("all", fmt.Sprint(r.Intn(len(l.lens))), fmt.Sprint(r.Intn(len(l.lens))))))
				do(fmt.Sprintf("gate kind=failopen on=1 at=%d", r.Intn(ndata+1)))
				do(r.Pick2("start", "start", "verify"))
				waitStop()
				do("gate kind=failopen on=0")
				if ntrk == 0 {
					do("crashcheck") // (the second session of the crash check would talk to the tracker stubs as well)
				}
				do("start")
				do("diskcheck")
			}
		case s == specialAt && special == 4 && !gates["write"]:
			var live *scriptPeer
			for _, p := range peers {
				if !p.closed {
					live = p
				}
			}
			if st == "Downloading" && live == nil && nextK <= 8 {
				live = attach()
			}
			if status(last) == "Downloading" && live != nil {
				do("gate kind=failwrite on=1")
				honestServe(peers, live, 64, step)
				do("obs")
				do("gate kind=failwrite on=0")
				waitStop()
				do("start")
			}
		case s == specialAt && special == 3 && !gates["write"]:
			var live *scriptPeer
			for _, p := range peers {
				if !p.closed {
					live = p
				}
			}
			if st == "Downloading" && live == nil && nextK <= 8 {
				live = attach()
			}
			if status(last) == "Downloading" && live != nil {
				do("gate kind=writedone on=1")
				gates["writedone"] = true
				honestServe(peers, live, r.Range(1, 3), step)
				do("obs")
				switch r.Intn(3) {
				case 0:
					if l.dataBytes() > 0 {
						do("gate kind=" + l.readGate() + " on=1") // the verification that follows is held too
						gates[l.readGate()] = true
					}
					do("verify hold=1")
					waitStop()
				case 1:
					do("stop hold=1")
					waitStop()
					do("start")
				default:
					do("stop hold=1")
					waitStop()
				}
				do("gate kind=writedone on=0")
				gates["writedone"] = false
				do("obs")
			}
		case dialHold && !dialed && st == "Downloading" && r.Chance(40):
			dialed = true
			// (with a connected peer: closing it at the stop makes room for another dial)
			hasLive := false
			for _, p := range peers {
				if !p.closed {
					hasLive = true
				}
			}
			if !hasLive && nextK <= 8 {
				attach()
			}
			do(fmt.Sprintf("dialhold n=%d", r.Range(2, 3)))
			if r.Chance(70) {
				do("stop")
				if ntrk > 0 {
					do("waitstop")
				}
				do("obs")
			}
		case roll < 3 && l.dataBytes() > 0 && !gates["read"] && !gates["open"]:
			// a requested verification is held by the read gate; the user stops the torrent meanwhile
			do("gate kind=read on=1")
			do("verify hold=1")
			if ntrk > 0 {
				do("waitstop")
			}
			do("stop hold=1")
			if ntrk > 0 {
				do("waitstop")
			}
			do("obs")
			do("gate kind=read on=0")
		case roll < 22:
			do("start")
		case roll < 40:
			if ntrk > 0 && r.Chance(65) {
				// the trackers do not answer the stopped event: the torrent stays Stopping until the stop timeout
				do(fmt.Sprintf("trk mode=%s", r.Pick2("hang-stopped", "hang-stopped", "ok")))
			}
			do("stop")
			if ntrk > 0 {
				switch r.Intn(4) {
				case 0:
					do("start") // a start while the torrent is still stopping
				case 1:
					do("obs")
				case 2, 3:
					if ntrk < 4 {
						do("addtracker") // a tracker added while the torrent is still stopping: remembered, not announced to
						ntrk++
					}
				}
				do("waitstop")
				do("trk mode=ok")
			}
		case roll < 50:
			do("verify")
			if ntrk > 0 {
				do("waitstop")
			}
		case roll < 53 && ntrk > 0 && ntrk < 4 && (st == "Stopped" || st == "Downloading" || st == "Seeding"):
			do("addtracker")
			ntrk++
		case roll < 58:
			kind := r.Pick2("open", l.readGate(), "write")
			on := !gates[kind]
			gates[kind] = on
			do(fmt.Sprintf("gate kind=%s on=%s", kind, b01(on)))
		case roll < 62:
			if st == "Stopped" {
				// files vanish while stopped and the next start is interrupted during allocation / verification
				do(fmt.Sprintf("mutate file=%s how=delete off=0", r.Pick2("all", fmt.Sprint(r.Intn(len(l.lens))))))
				kind := r.Pick2("open", l.readGate())
				do(fmt.Sprintf("gate kind=%s on=1", kind))
				do("start")
				do("stop")
				do(fmt.Sprintf("gate kind=%s on=0", kind))
				gates[kind] = false
				do("start")
			} else {
				do("obs")
			}
		case roll < 68 && obsKV(last)["completed"] == "1":
			// a complete torrent is damaged while stopped, re-verified on request and started again
			if st != "Stopped" {
				do("stop")
				if ntrk > 0 {
					do("waitstop")
				}
			}
			if status(last) == "Stopped" {
				file := "all"
				if r.Chance(60) {
					file = fmt.Sprint(r.Intn(len(l.lens)))
				}
				do(fmt.Sprintf("mutate file=%s how=%s off=%d", file, r.Pick2("corrupt", "corrupt", "delete", "fill"), r.Pick(0, 1, l.pl-1, l.pl)))
				do("verify")
				if ntrk > 0 {
					do("waitstop")
				}
				do("start")
			}
		case roll < 72:
			if st == "Stopped" {
				how := r.Pick2("delete", "delete", "corrupt", "fill")
				file := "all"
				if r.Chance(60) {
					file = fmt.Sprint(r.Intn(len(l.lens)))
				}
				do(fmt.Sprintf("mutate file=%s how=%s off=%d", file, how, r.Pick(0, 1, l.pl-1, l.pl)))
			} else {
				do("obs")
			}
		default:
			// some download progress from an honest peer
			var live *scriptPeer
			for _, p := range peers {
				if !p.closed {
					live = p
				}
			}
			if live == nil && nextK <= 8 {
				live = attach()
			}
			if live != nil {
				honestServe(peers, live, r.Range(1, 3), step)
			}
		}
	}
	// Final phase: everything released, (re)start, an honest seed answers every request.
	for _, kind := range []string{"open", "read", "write", "writedone"} {
		if gates[kind] {
			do(fmt.Sprintf("gate kind=%s on=0", kind))
		}
	}
	if ntrk > 0 {
		do("trk mode=ok")
		do("waitstop")
	}
	do("start")
	if status(last) == "Stopped" || status(last) == "Stopping" {
		do("start")
	}
	seed := attach()
	for i := 0; i < 4*l.numPieces()+8 && !seed.closed; i++ {
		if honestServe(peers, seed, 64, step) == 0 {
			break
		}
	}
	step("diskcheck final=1")
}

func init() {
	register(&Suite{Name: "loop-magnet", NewStepper: newLoopStepper, GenStep: genLoopMagnet})
}

// metaRequests extracts the metadata block indexes the client requested from peer k in this observation.
func metaRequests(o string, k int) []int {
	var out []int
	for _, msg := range commaList(obsKV(o)[fmt.Sprintf("p%d", k)]) {
		if strings.HasPrefix(msg, "extmeta:") && strings.Contains(msg, ":type=0:") {
			for _, f := range strings.Split(msg, ":") {
				if strings.HasPrefix(f, "piece=") {
					out = append(out, atoi(strings.TrimPrefix(f, "piece=")))
				}
			}
		}
	}
	return out
}

// genLoopMagnet: a torrent added by magnet link; peers announce true / wrong / zero / oversized metadata
// sizes and answer the client's metadata requests honestly, with flipped bytes, wrong lengths, duplicates,
// unrequested indexes or rejects; have/bitfield messages arrive before the metadata is known (and are
// replayed later); finally an honest peer serves metadata and data.
func genLoopMagnet(r *Rng, idx int, tier string, step func(op string) string) {
	l := genLayout(r)
	for l.numPieces() > 5 {
		l.pl *= 2
	}
	private := r.Chance(8)
	// sometimes the data is already on disk: after the metadata arrives the torrent verifies, and the
	// verification is held so that peer messages arrive in the Verifying state
	seeded := r.Chance(35)
	// sometimes the session's piece-count limit is at or just below the torrent's piece count, and sometimes the
	// torrent is to stop as soon as it has the metadata
	extra := ""
	if r.Chance(15) {
		extra += fmt.Sprintf(" cfg.MaxPieces=%d", r.Pick(l.numPieces()-1, l.numPieces(), 1))
	}
	stopMeta := !seeded && r.Chance(12)
	if stopMeta {
		extra += " stopaftermeta=1"
	}
	o := step(fmt.Sprintf("new pl=%d files=%s magnet=1 private=%s cfg.AllowedFastSet=0 cfg.MaxMetadataSize=40000 multi=%s seeded=%s%s",
		l.pl, l.filesArg(), b01(private), b01(r.Chance(50)), b01(seeded), extra))
	if !strings.HasPrefix(o, "ok") {
		return
	}
	if seeded {
		step(fmt.Sprintf("gate kind=%s on=1", r.Pick2(l.readGate(), l.readGate(), "open")))
	} else if r.Chance(25) {
		// nothing on disk, but the allocation that follows the metadata is held: have-all / bitfield / unchoke
		// of the peers arrive between "metadata complete" and "allocation done"
		step("gate kind=open on=1")
	}
	isize := atoi(obsKV(o)["isize"])
	step("start")
	// sometimes the allocation that follows the metadata fails: the torrent stops with an error while the
	// peers of the metadata phase are still connected (info known, nothing allocated, no piece picker)
	failAlloc := !seeded && r.Chance(12)
	if failAlloc {
		step("gate kind=failopen on=1")
	}
	type mp struct {
		k       int
		kind    string // honest | liar | sizeliar | rejecter | mute
		pending []int
		closed  bool
		size    int
	}
	var peers []*mp
	var dpeers []*scriptPeer
	nextK := 1
	info := func(o string) bool { return obsKV(o)["info"] == "1" }
	note := func(o string) {
		m := obsKV(o)
		live := map[string]bool{}
		for _, k := range commaList(m["peers"]) {
			live[k] = true
		}
		for _, p := range peers {
			if _, ok := m["peers"]; ok && !live[fmt.Sprint(p.k)] {
				p.closed = true
			}
			p.pending = append(p.pending, metaRequests(o, p.k)...)
		}
		absorb(dpeers, o)
	}
	last := o
	do := func(op string) string { last = step(op); note(last); return last }
	addPeer := func(kind string) *mp {
		p := &mp{k: nextK, kind: kind, size: isize}
		nextK++
		peers = append(peers, p)
		dpeers = append(dpeers, &scriptPeer{k: p.k, kind: "honest"})
		o := do(fmt.Sprintf("peer k=%d fast=%s ext=1", p.k, b01(r.Chance(50))))
		if !strings.HasPrefix(o, "accepted") {
			p.closed = true
			return p
		}
		if r.Chance(40) {
			// messages before the extension handshake / metadata: queued by the client
			switch r.Intn(4) {
			case 0:
				do(fmt.Sprintf("msg p=%d t=haveall", p.k))
			case 1:
				bits := strings.Repeat("1", l.numPieces())
				if r.Chance(40) {
					bits += strings.Repeat("1", 8) // wrong length for the real piece count
				}
				do(fmt.Sprintf("msg p=%d t=bitfield bits=%s", p.k, bits))
				if r.Chance(60) {
					do(fmt.Sprintf("msg p=%d t=have i=%d", p.k, r.Intn(l.numPieces()+1)))
				}
			case 2:
				do(fmt.Sprintf("msg p=%d t=have i=%d", p.k, r.Intn(l.numPieces()+2)))
			default:
				do(fmt.Sprintf("msg p=%d t=allowedfast i=%d", p.k, r.Intn(l.numPieces()+2)))
			}
		}
		if r.Chance(15) {
			// illegal order: a metadata request / data / reject before the peer's own extension handshake
			switch r.Intn(3) {
			case 0:
				do(fmt.Sprintf("msg p=%d t=metareq i=%d", p.k, r.Intn(3)))
			case 1:
				do(fmt.Sprintf("msg p=%d t=metadata i=%d data=true", p.k, r.Intn(2)))
			default:
				do(fmt.Sprintf("msg p=%d t=metareject i=%d", p.k, r.Intn(2)))
			}
			if obsKV(last)["peers"] != "" && !strings.Contains(","+obsKV(last)["peers"]+",", fmt.Sprintf(",%d,", p.k)) {
				p.closed = true
				return p
			}
		}
		switch kind {
		case "sizeliar":
			p.size = r.Pick(0, 1, isize-1, isize+1, isize+16384, 39999, 40000, 40001, 1<<20)
			if p.size < 0 {
				p.size = 0
			}
		case "mute":
			if r.Chance(50) {
				do(fmt.Sprintf("msg p=%d t=exths m=ut_pex:2 size=%d", p.k, isize))
				return p
			}
		}
		do(fmt.Sprintf("msg p=%d t=exths m=ut_metadata:3+ut_pex:2 size=%d reqq=%d", p.k, p.size, r.Pick(0, 0, 1, 250)))
		return p
	}
	kinds := []string{"honest", "liar", "sizeliar", "rejecter", "mute"}
	np := r.Range(1, 3)
	for i := 0; i < np; i++ {
		addPeer(kinds[r.Intn(len(kinds))])
	}
	budget := 14
	if tier == "thorough" {
		budget = 30
	}
	for s := 0; s < budget && !info(last); s++ {
		if strings.HasPrefix(last, "hang") || strings.HasPrefix(last, "dead") {
			return
		}
		var cand []*mp
		for _, p := range peers {
			if !p.closed {
				cand = append(cand, p)
			}
		}
		if len(cand) == 0 || r.Chance(12) {
			if nextK > 7 {
				break
			}
			addPeer(kinds[r.Intn(len(kinds))])
			continue
		}
		p := cand[r.Intn(len(cand))]
		switch {
		case r.Chance(5):
			do(fmt.Sprintf("snub p=%d", p.k))
		case r.Chance(5):
			do(fmt.Sprintf("disconnect p=%d", p.k))
			p.closed = true
		case r.Chance(5):
			do(fmt.Sprintf("msg p=%d t=metareq i=%d", p.k, r.Intn(3)))
		case len(p.pending) == 0:
			if p.kind == "liar" || r.Chance(10) {
				do(fmt.Sprintf("msg p=%d t=metadata i=%d data=true", p.k, r.Intn(3))) // unrequested
			}
		default:
			i := p.pending[0]
			p.pending = p.pending[1:]
			switch p.kind {
			case "honest", "sizeliar", "mute":
				do(fmt.Sprintf("msg p=%d t=metadata i=%d data=true", p.k, i))
			case "rejecter":
				do(fmt.Sprintf("msg p=%d t=metareject i=%d", p.k, i))
			case "liar":
				switch r.Intn(4) {
				case 0:
					do(fmt.Sprintf("msg p=%d t=metadata i=%d data=flip", p.k, i))
				case 1:
					do(fmt.Sprintf("msg p=%d t=metadata i=%d len=%d", p.k, i, r.Pick(0, 1, 16383, 16384)))
				case 2:
					do(fmt.Sprintf("msg p=%d t=metadata i=%d data=true", p.k, i))
					do(fmt.Sprintf("msg p=%d t=metadata i=%d data=true", p.k, i)) // duplicate answer
				default:
					do(fmt.Sprintf("msg p=%d t=metadata i=%d data=true", p.k, i+1)) // wrong index
				}
			}
		}
	}
	// an honest peer offering the metadata: the fetch must succeed (unless the torrent turns out private)
	if !info(last) && !strings.HasPrefix(last, "hang") {
		h := addPeer("honest")
		for s := 0; s < 8 && !info(last) && !h.closed; s++ {
			if len(h.pending) == 0 {
				break
			}
			i := h.pending[0]
			h.pending = h.pending[1:]
			do(fmt.Sprintf("msg p=%d t=metadata i=%d data=true", h.k, i))
		}
	}
	do("obs metaphase=done")
	if stopMeta && info(last) && obsKV(last)["st"] == "Stopped" {
		for _, p := range peers {
			p.closed = true
		}
		do("start")
	}
	if failAlloc {
		do("gate kind=failopen on=0")
		if info(last) && obsKV(last)["st"] == "Stopped" {
			for _, p := range peers {
				p.closed = true
			}
			do("start")
		}
	}
	if st := obsKV(last)["st"]; st == "Verifying" || st == "Allocating" {
		// messages from the connected peers while allocation / verification is held
		for s := 0; s < r.Range(2, 6); s++ {
			var live []*mp
			for _, p := range peers {
				if !p.closed {
					live = append(live, p)
				}
			}
			if len(live) == 0 {
				break
			}
			p := live[r.Intn(len(live))]
			i := r.Intn(l.numPieces() + 1)
			switch r.Intn(11) {
			case 0:
				do(fmt.Sprintf("msg p=%d t=have i=%d", p.k, i))
			case 1, 9, 10:
				do(fmt.Sprintf("msg p=%d t=haveall", p.k))
			case 2:
				do(fmt.Sprintf("msg p=%d t=bitfield bits=%s", p.k, strings.Repeat("1", l.numPieces())))
			case 3:
				do(fmt.Sprintf("msg p=%d t=allowedfast i=%d", p.k, i))
			case 4:
				do(fmt.Sprintf("msg p=%d t=unchoke", p.k))
			case 5:
				do(fmt.Sprintf("msg p=%d t=interested", p.k))
			case 6:
				do(fmt.Sprintf("msg p=%d t=request i=%d b=0 l=1", p.k, i))
			case 7:
				do(fmt.Sprintf("msg p=%d t=cancel i=%d b=0 l=1", p.k, i))
			default:
				do(fmt.Sprintf("msg p=%d t=piece i=%d b=0 l=1 data=true", p.k, i))
			}
		}
		do("gate kind=open on=0")
		do("gate kind=read on=0")
	}
	// data phase with whoever is still connected plus one honest seed
	if info(last) && obsKV(last)["st"] == "Downloading" {
		sd := &scriptPeer{k: nextK, kind: "honest"}
		dpeers = append(dpeers, sd)
		peers = append(peers, &mp{k: nextK})
		o := do(fmt.Sprintf("peer k=%d fast=1 ext=0", sd.k))
		if strings.HasPrefix(o, "accepted") {
			do(fmt.Sprintf("msg p=%d t=haveall", sd.k))
			do(fmt.Sprintf("msg p=%d t=unchoke", sd.k))
			for i := 0; i < 3*l.numPieces()+6 && !sd.closed; i++ {
				if honestServe(dpeers, sd, 64, step) == 0 {
					break
				}
			}
		}
		step("diskcheck final=1")
	}
}

func init() {
	register(&Suite{Name: "private", NewStepper: newLoopStepper, GenStep: genPrivate})
}

// genPrivate: private (and, for contrast, public) torrents exposed to peer-exchange messages, DHT results,
// port messages, extension handshakes advertising PEX, and magnet export requests.
func genPrivate(r *Rng, idx int, tier string, step func(op string) string) {
	l := genLayout(r)
	for l.numPieces() > 4 {
		l.pl *= 2
	}
	private := r.Chance(70)
	magnet := r.Chance(20)
	ntrk := 0
	if !magnet && r.Chance(50) {
		ntrk = r.Range(1, 2)
	}
	o := step(fmt.Sprintf("new pl=%d files=%s private=%s magnet=%s pex=%s cfg.AllowedFastSet=0 cfg.MaxMetadataSize=40000 trackers=%d dht=%s",
		l.pl, l.filesArg(), b01(private), b01(magnet), b01(r.Chance(80)), ntrk, b01(r.Chance(35))))
	if !strings.HasPrefix(o, "ok") {
		return
	}
	isize := atoi(obsKV(o)["isize"])
	step("magnet")
	if ntrk > 0 && r.Chance(50) {
		// the client restarts before the torrent was ever started: the resume record has the info but no bitfield
		step("reload")
	}
	last := step("start")
	var dpeers []*scriptPeer
	nextK := 1
	pendingMeta := map[int][]int{}
	do := func(op string) string {
		last = step(op)
		absorb(dpeers, last)
		for _, p := range dpeers {
			pendingMeta[p.k] = append(pendingMeta[p.k], metaRequests(last, p.k)...)
		}
		return last
	}
	steps := r.Range(6, 16)
	for s := 0; s < steps; s++ {
		if strings.HasPrefix(last, "hang") || strings.HasPrefix(last, "dead") {
			return
		}
		var live []*scriptPeer
		for _, p := range dpeers {
			if !p.closed {
				live = append(live, p)
			}
		}
		roll := r.Intn(100)
		switch {
		case roll < 20 || len(live) == 0:
			if nextK > 6 {
				continue
			}
			p := &scriptPeer{k: nextK, kind: "honest"}
			nextK++
			dpeers = append(dpeers, p)
			o := do(fmt.Sprintf("peer k=%d fast=%s ext=1 dht=%s", p.k, b01(r.Chance(50)), b01(r.Chance(30))))
			if !strings.HasPrefix(o, "accepted") {
				p.closed = true
				continue
			}
			exts := "ut_pex:2"
			if r.Chance(70) {
				exts = "ut_metadata:3+ut_pex:2"
			}
			if r.Chance(85) {
				do(fmt.Sprintf("msg p=%d t=exths m=%s size=%d", p.k, exts, isize))
				if r.Chance(25) {
					// a second extension handshake that (now) lists ut_pex
					do(fmt.Sprintf("msg p=%d t=exths m=ut_metadata:3+ut_pex:%d size=%d", p.k, r.Pick(2, 4), isize))
				}
			}
		case roll < 45:
			p := live[r.Intn(len(live))]
			switch r.Intn(3) {
			case 0:
				do(fmt.Sprintf("msg p=%d t=pex added=@ dropped=", p.k))
			case 1:
				do(fmt.Sprintf("msg p=%d t=pex added=127.0.0.1:0 dropped=@", p.k))
			default:
				do(fmt.Sprintf("msg p=%d t=pex added=@+127.0.0.9:1 dropped=@", p.k))
			}
		case roll < 55:
			do("dhtpeers addrs=@")
		case roll < 62:
			p := live[r.Intn(len(live))]
			do(fmt.Sprintf("msg p=%d t=port port=%d", p.k, r.Pick(0, 6881, 65535)))
		case roll < 67:
			do("magnet")
		case roll < 70:
			do("announce") // the user asks for an announce now (trackers; and the DHT for a torrent that uses it)
		case roll < 73 && ntrk > 0:
			do("reload")
		case roll < 76 && ntrk > 0 && ntrk < 4 && obsKV(last)["st"] != "Stopped" && obsKV(last)["st"] != "Stopping" && obsKV(last)["st"] != "":
			// a tracker added by hand to the running torrent: its announcer starts at once and must carry the same
			// identity (peer id prefix, user agent) as the torrent's other announces
			do("addtracker")
			ntrk++
		case roll < 80:
			do("stop")
			for _, p := range dpeers {
				p.closed = true
			}
			if ntrk > 0 {
				do("waitstop")
				if r.Chance(40) {
					do("reload")
				}
			}
			do("start")
		default:
			p := live[r.Intn(len(live))]
			if q := pendingMeta[p.k]; len(q) > 0 {
				pendingMeta[p.k] = q[1:]
				do(fmt.Sprintf("msg p=%d t=metadata i=%d data=true", p.k, q[0]))
			} else if obsKV(last)["st"] == "Downloading" {
				if !p.unchoked {
					do(fmt.Sprintf("msg p=%d t=haveall", p.k))
					do(fmt.Sprintf("msg p=%d t=unchoke", p.k))
					p.unchoked = true
				}
				honestServe(dpeers, p, 2, step)
			}
		}
	}
	step("magnet")
	if r.Chance(40) {
		// a handle that outlives its torrent: the torrent is removed, then its magnet link is asked for
		step("magnet gone=1")
	}
}

func init() {
	register(&Suite{Name: "crashpoints", NewStepper: newLoopStepper, GenStep: genCrashpoints})
}

// genCrashpoints: downloads from honest and corrupting peers with gated writes, periodic resume writes,
// stop/start/verify; at many points the process "dies": a fresh session is opened on a snapshot of the
// resume database and of the storage (optionally with files missing) and must not claim unwritten pieces.
func genCrashpoints(r *Rng, idx int, tier string, step func(op string) string) {
	l := genLayout(r)
	for l.numPieces() > 6 {
		l.pl *= 2
	}
	o := step(fmt.Sprintf("new pl=%d files=%s cfg.AllowedFastSet=0", l.pl, l.filesArg()))
	if !strings.HasPrefix(o, "ok") {
		return
	}
	last := step("start")
	var peers []*scriptPeer
	nextK := 1
	gated := false
	do := func(op string) string {
		last = step(op)
		absorb(peers, last)
		return last
	}
	crash := func() {
		del := ""
		if r.Chance(35) {
			del = " delete=" + r.Pick2("all", fmt.Sprint(r.Intn(len(l.lens))))
		}
		do("crashcheck" + del)
	}
	attach := func(kind string) *scriptPeer {
		p := &scriptPeer{k: nextK, kind: kind}
		nextK++
		peers = append(peers, p)
		if !strings.HasPrefix(do(fmt.Sprintf("peer k=%d fast=1 ext=0", p.k)), "accepted") {
			p.closed = true
			return p
		}
		do(fmt.Sprintf("msg p=%d t=haveall", p.k))
		do(fmt.Sprintf("msg p=%d t=unchoke", p.k))
		p.unchoked = true
		return p
	}
	steps := 10 + 3*l.numPieces()
	if tier == "thorough" {
		steps *= 2
	}
	for s := 0; s < steps; s++ {
		if strings.HasPrefix(last, "hang") || strings.HasPrefix(last, "dead") {
			return
		}
		var live []*scriptPeer
		for _, p := range peers {
			if !p.closed {
				live = append(live, p)
			}
		}
		roll := r.Intn(100)
		switch {
		case roll < 18:
			crash()
		case roll < 26:
			do("persist")
			if r.Chance(60) {
				crash()
			}
		case roll < 32 && !gated:
			do("gate kind=write on=1")
			gated = true
		case roll < 40 && gated:
			if r.Chance(50) {
				crash() // write in flight
			}
			do("gate kind=write on=0")
			gated = false
			if r.Chance(50) {
				crash() // right after the write completed
			}
		case roll < 43 && !gated && len(live) > 0:
			// the storage refuses the piece (its first write call fails): the torrent stops with the error; nothing of
			// the piece may be claimed, whatever reached the disk of its later sections
			do("gate kind=failwrite on=1")
			p := live[r.Intn(len(live))]
			for k := 0; k < 8 && len(p.pending) > 0 && !strings.Contains(last, "writefail"); k++ {
				q := p.pending[0]
				p.pending = p.pending[1:]
				do(fmt.Sprintf("msg p=%d t=piece i=%d b=%d l=%d data=true", p.k, q[0], q[1], q[2]))
			}
			do("gate kind=failwrite on=0")
			for _, p := range peers {
				if obsKV(last)["st"] != "Downloading" {
					p.closed = true
					p.pending = nil
				}
			}
			crash()
			do("start")
		case roll < 45:
			do("stop")
			for _, p := range peers {
				p.closed = true
				p.pending = nil
			}
			if r.Chance(50) {
				crash()
			}
			do("start")
		case roll < 48:
			do("verify")
			for _, p := range peers {
				p.closed = true
				p.pending = nil
			}
			crash()
			do("start")
		case roll < 50:
			// files vanish while the torrent is stopped; the user asks for a verification; the crash comes while the
			// verifier is held at its first read, after the allocator has created the files again: the bitfield of
			// before the loss must not be in the resume database any more
			do("stop")
			for _, p := range peers {
				p.closed = true
				p.pending = nil
			}
			do(fmt.Sprintf("mutate file=%s how=delete off=0", r.Pick2("all", fmt.Sprint(r.Intn(len(l.lens))))))
			held := l.dataBytes() > 0
			if held {
				do(fmt.Sprintf("gate kind=%s on=1", l.readGate()))
			}
			do("verify hold=1")
			crash()
			if held {
				do(fmt.Sprintf("gate kind=%s on=0", l.readGate()))
			}
			crash()
		case roll < 54:
			// files vanish while the torrent is stopped; the crash comes right after the restart has found them
			// missing (and re-created them), before anything else is persisted
			do("stop")
			for _, p := range peers {
				p.closed = true
				p.pending = nil
			}
			do(fmt.Sprintf("mutate file=%s how=delete off=0", r.Pick2("all", fmt.Sprint(r.Intn(len(l.lens))))))
			hold := ""
			if r.Chance(50) {
				hold = r.Pick2("open", l.readGate())
				do(fmt.Sprintf("gate kind=%s on=1", hold))
			}
			do("start")
			crash()
			if hold != "" {
				do(fmt.Sprintf("gate kind=%s on=0", hold))
				crash()
			}
		case len(live) == 0 || (roll < 58 && nextK <= 6):
			if nextK <= 8 {
				attach(r.Pick2("honest", "honest", "corrupt"))
			}
		default:
			p := live[r.Intn(len(live))]
			if len(p.pending) == 0 {
				continue
			}
			q := p.pending[0]
			p.pending = p.pending[1:]
			data := "true"
			if p.kind == "corrupt" && r.Chance(35) {
				data = "flip"
			}
			do(fmt.Sprintf("msg p=%d t=piece i=%d b=%d l=%d data=%s", p.k, q[0], q[1], q[2], data))
		}
	}
	if gated {
		do("gate kind=write on=0")
	}
	crash()
	do("stop")
	do("crashcheck")
}

func init() {
	register(&Suite{Name: "serve", NewStepper: newLoopStepper, GenStep: genServe})
}

// genServe: a torrent whose files are (partly) on disk serves scripted leechers: every choke / fast /
// allowed-fast / piece-held combination, request triples from the 32-bit edge set, duplicates, cancels,
// tiny read-cache block sizes so that requests cross cache blocks.
func genServe(r *Rng, idx int, tier string, step func(op string) string) {
	l := genLayout(r)
	for l.numPieces() > 6 {
		l.pl *= 2
	}
	rcb := r.Pick(1, 3, 7, 16, 100, 16384, 131072)
	o := step(fmt.Sprintf("new pl=%d files=%s seeded=1 cfg.AllowedFastSet=%d cfg.ReadCacheBlockSize=%d cfg.ReadCacheSize=%d cfg.UnchokedPeers=%d cfg.OptimisticUnchokedPeers=%d",
		l.pl, l.filesArg(), r.Pick(0, 2, 10), rcb, r.Pick(1, 64, 4096, 1<<20), r.Pick(1, 2, 3), r.Pick(0, 1)))
	if !strings.HasPrefix(o, "ok") {
		return
	}
	if r.Chance(30) {
		// only part of the data is there: some requests are for pieces we do not have
		step(fmt.Sprintf("mutate file=%d how=corrupt off=%d", r.Intn(len(l.lens)), r.Pick(0, 1, l.pl)))
	}
	last := step("start")
	nextK := 1
	type lp struct {
		k          int
		closed     bool
		interested bool
	}
	var peers []*lp
	do := func(op string) string {
		last = step(op)
		m := obsKV(last)
		live := map[string]bool{}
		for _, k := range commaList(m["peers"]) {
			live[k] = true
		}
		for _, p := range peers {
			if _, ok := m["peers"]; ok && !live[fmt.Sprint(p.k)] {
				p.closed = true
			}
		}
		return last
	}
	steps := r.Range(10, 30)
	if tier == "thorough" {
		steps *= 2
	}
	for s := 0; s < steps; s++ {
		if strings.HasPrefix(last, "hang") || strings.HasPrefix(last, "dead") {
			return
		}
		var live []*lp
		for _, p := range peers {
			if !p.closed {
				live = append(live, p)
			}
		}
		if len(live) == 0 || (r.Chance(12) && nextK <= 6) {
			p := &lp{k: nextK}
			nextK++
			peers = append(peers, p)
			if !strings.HasPrefix(do(fmt.Sprintf("peer k=%d fast=%s ext=0", p.k, b01(r.Chance(60)))), "accepted") {
				p.closed = true
			}
			continue
		}
		p := live[r.Intn(len(live))]
		roll := r.Intn(100)
		switch {
		case roll < 15:
			do(fmt.Sprintf("msg p=%d t=interested", p.k))
			p.interested = true
		case roll < 20:
			do(fmt.Sprintf("msg p=%d t=notinterested", p.k))
		case roll < 26:
			i := r.Intn(l.numPieces())
			do(fmt.Sprintf("msg p=%d t=cancel i=%d b=%d l=%d", p.k, i, r.Pick(0, 1), r.Pick(1, l.pieceLen(i))))
		case roll < 30:
			do(fmt.Sprintf("disconnect p=%d", p.k))
			p.closed = true
		default:
			i := r.Intn(l.numPieces() + 1)
			pl := uint32(l.pieceLen(min(i, l.numPieces()-1)))
			var b, ln uint32
			if r.Chance(65) {
				// in range, not aligned to anything
				b = uint32(r.Intn(int(pl)))
				ln = uint32(r.Range(1, min(int(pl-b), 16384)))
			} else {
				b = r.U32Edge(pl)
				ln = r.U32Edge(pl)
			}
			if ln > 16384 {
				// the reader closes the connection on longer requests before the loop sees them
				ln = uint32(r.Pick(0, 1, 16384))
			}
			if rcb <= 16 && ln > uint32(64*rcb) && uint64(b)+uint64(ln) <= uint64(pl) {
				// with a tiny read-cache block one request costs a cache entry (and a TTL timer) per block:
				// keep valid requests short so that an observation never has to wait seconds for the frame
				ln = uint32(r.Range(1, 64*rcb))
			}
			op := fmt.Sprintf("msg p=%d t=request i=%d b=%d l=%d", p.k, i, b, ln)
			do(op)
			if r.Chance(15) {
				do(op) // duplicate
			}
		}
	}
	step("obs")
}
