//go:build verif

package main

// Suite policy (C12): the real btconn.Accept / btconn.Dial against scripted remote endpoints, all
// encryption-policy settings × remote behaviours enumerated completely.
//
//	params xa= xb= skeys=<infohash> ksn=       (see suite_mse.go)
//	accept force= haskey= known= ih= ourid= ourext= padb= padd= cb= w1= n2= w2= probe=
//	   real Accept on one end of the scripted pipe; the remote writes w1, waits until Accept has
//	   written n2 bytes, writes w2 and half-closes.  After a successful Accept the harness writes
//	   `probe` through the returned conn and reads the rest of the remote's bytes through it.
//	   obs: res=ok|err:<e>|panic cipher= ext= id= ih= frb= wrote=<raw bytes Accept's side put on the wire> got= wire=plain|enc|-
//	dial enable= force= ih= ourid= ourext= pada= padc= c1=<kind> c2=<kind> padb= padd= peerid= peerext= garb= probe=
//	   real Dial to a loopback listener whose 1st / 2nd accepted connection behave as c1 / c2:
//	     c1: plainpeer (closes on anything but a plaintext handshake) | rc4first | plainfirst (dual-mode
//	         peers answering MSE with that preference) | trunc (selects RC4, announces PadD 100, sends 10,
//	         closes) | badsel (selects a method that was not offered) | garbage (60 bytes, closes)
//	     c2: plainok (answers a plaintext handshake) | close | refuse (listener already closed)
//	   obs: res= cipher= retried= conns= ext= id= in1= in2= out1= out2= got= wire=
//	   in*/out* are the raw bytes the remote wrote/received per connection (in* are inputs of the model).

import (
	"bytes"
	"errors"
	"fmt"
	"io"
	"net"
	"strings"
	"sync"
	"time"

	"github.com/cenkalti/rain/v2/internal/btconn"
	"github.com/cenkalti/rain/v2/internal/handshaker/incominghandshaker"
	"github.com/cenkalti/rain/v2/internal/handshaker/outgoinghandshaker"
	"github.com/cenkalti/rain/v2/internal/mse"
	"github.com/cenkalti/rain/v2/internal/peersource"
)

func init() {
	register(&Suite{Name: "policy", Gen: genPolicy, Exec: execPolicy})
}

var pstrBytes = append([]byte{19}, []byte("BitTorrent protocol")...)

func btHandshakeBytes(ext, ih, id []byte) []byte {
	var b []byte
	b = append(b, pstrBytes...)
	b = append(b, ext...)
	b = append(b, ih...)
	b = append(b, id...)
	return b
}

func arr20(b []byte) (a [20]byte) { copy(a[:], b); return }
func arr8(b []byte) (a [8]byte)   { copy(a[:], b); return }

func btErrEnum(err error) string {
	if err == nil {
		return "ok"
	}
	var he *btconn.HandshakeError
	if errors.As(err, &he) {
		switch he.Error() {
		case "invalid info hash":
			return "badinfohash"
		case "dropped own connection":
			return "own"
		case "connection is not encrypted":
			return "notencrypted"
		case "invalid protocol":
			return "badproto"
		}
	}
	var ne *net.OpError
	if errors.As(err, &ne) {
		if ne.Op == "dial" {
			return "dialfailed"
		}
		return "eof" // reset / closed by the remote
	}
	e := mseErrEnum(err)
	if e == "eof" {
		return "eof"
	}
	return "mse:" + e
}

func execPolicy(ops []string) []string {
	var obs []string
	var p mseParams
	for _, op := range ops {
		m := kv(op)
		switch m["_"] {
		case "params":
			p = parseMSEParams(m)
			obs = append(obs, paramsObs(p))
		case "accept":
			obs = append(obs, execAccept(p, m))
		case "dial":
			obs = append(obs, execDial(p, m))
		case "wiring":
			obs = append(obs, execWiring())
		default:
			obs = append(obs, "unknown-op")
		}
	}
	return obs
}

// ---------------------------------------------------------------------------------------------
// Accept
// ---------------------------------------------------------------------------------------------

func execAccept(p mseParams, m map[string]string) string {
	ih := unhex(m["ih"])
	ourID := unhex(m["ourid"])
	probe := unhex(m["probe"])
	ea, eb, a2b, b2a := newDuplex(nil, mseParseChunks(m["cb"]))
	sr, restore := installRand()
	defer restore()
	cancel := watchdog(5*time.Second, ea, eb)
	defer cancel()

	var wg sync.WaitGroup
	wg.Add(1)
	go func() {
		defer wg.Done()
		runScript(ea, b2a, []scriptStep{{0, unhex(m["w1"])}, {atoi(m["n2"]), unhex(m["w2"])}})
	}()

	var getSKey func([20]byte) []byte
	if m["haskey"] == "1" {
		getSKey = getSKeyFunc([][]byte{ih}, false)
	}
	res := "?"
	var cipher uint32
	var ext [8]byte
	var id, ihGot [20]byte
	var got []byte
	wire := "-"
	done := make(chan struct{})
	go func() {
		defer close(done)
		defer func() {
			if r := recover(); r != nil {
				res = "panic"
				eb.Close()
			}
		}()
		sr.setScript(randScriptIncoming(p.xb, unhex(m["padb"]), atoi(m["padd"])))
		hasIH := func(h [20]byte) bool { return m["known"] == "1" && h == arr20(ih) }
		var conn net.Conn
		var c mse.CryptoMethod
		var e [8]byte
		var pid, ihr [20]byte
		var err error
		if m["via"] == "hs" {
			// through the handshaker goroutine body the torrent starts for every incoming connection
			h := incominghandshaker.New(eb)
			resultC := make(chan *incominghandshaker.IncomingHandshaker, 1)
			h.Run(arr20(ourID), getSKey, hasIH, resultC, 10*time.Second, arr8(unhex(m["ourext"])), m["force"] == "1")
			<-resultC
			conn, c, e, pid, ihr, err = h.Conn, h.Cipher, h.Extensions, h.PeerID, arr20(ih), h.Error
		} else {
			conn, c, e, pid, ihr, err = btconn.Accept(eb, 10*time.Second, getSKey, m["force"] == "1", hasIH,
				arr8(unhex(m["ourext"])), arr20(ourID))
		}
		if err != nil {
			res = "err:" + btErrEnum(err)
			eb.Close()
			return
		}
		res, cipher, ext, id, ihGot = "ok", uint32(c), e, pid, ihr
		before, _ := b2a.snapshot()
		conn.Write(probe)
		after, _ := b2a.snapshot()
		if bytes.Equal(after[len(before):], probe) {
			wire = "plain"
		} else {
			wire = "enc"
		}
		eb.CloseWrite()
		got = readAllStream(conn, nil)
	}()
	<-done
	wg.Wait()
	_, readsB := a2b.snapshot()
	wrote, _ := b2a.snapshot()
	if res != "ok" {
		return fmt.Sprintf("res=%s frb=%d wrote=%s", res, firstReadOf(readsB), hx(wrote))
	}
	return fmt.Sprintf("res=ok cipher=%d ext=%s id=%s ih=%s frb=%d wrote=%s got=%s wire=%s", cipher, hx(ext[:]), hx(id[:]), hx(ihGot[:]),
		firstReadOf(readsB), hx(wrote), hx(got), wire)
}

// ---------------------------------------------------------------------------------------------
// Dial
// ---------------------------------------------------------------------------------------------

// remoteConn is the scripted side of one accepted TCP connection: a background reader collects
// everything the dialer sends; need(n) waits for n bytes in total.
type remoteConn struct {
	c    net.Conn
	mu   sync.Mutex
	cond *sync.Cond
	in   []byte // received (= out_k of the observation)
	eof  bool
	out  []byte // written (= in_k)
	// the dialer gave up on this connection but did not close it
	leftOpen bool
}

func newRemoteConn(c net.Conn) *remoteConn {
	r := &remoteConn{c: c}
	r.cond = sync.NewCond(&r.mu)
	go func() {
		buf := make([]byte, 4096)
		for {
			n, err := c.Read(buf)
			r.mu.Lock()
			r.in = append(r.in, buf[:n]...)
			if err != nil {
				r.eof = true
			}
			r.cond.Broadcast()
			r.mu.Unlock()
			if err != nil {
				return
			}
		}
	}()
	return r
}

func (r *remoteConn) need(n int) bool {
	r.mu.Lock()
	defer r.mu.Unlock()
	for len(r.in) < n {
		if r.eof {
			return false
		}
		r.cond.Wait()
	}
	return true
}

func (r *remoteConn) at(i, j int) []byte {
	r.mu.Lock()
	defer r.mu.Unlock()
	return append([]byte(nil), r.in[i:j]...)
}

func (r *remoteConn) write(b []byte) {
	r.out = append(r.out, b...)
	r.c.Write(b)
}

func (r *remoteConn) waitEOF() {
	r.mu.Lock()
	for !r.eof {
		r.cond.Wait()
	}
	r.mu.Unlock()
}

// waitEOFFor: did the dialer close the connection within d?
func (r *remoteConn) waitEOFFor(d time.Duration) bool {
	deadline := time.Now().Add(d)
	for {
		r.mu.Lock()
		eof := r.eof
		r.mu.Unlock()
		if eof {
			return true
		}
		if time.Now().After(deadline) {
			return false
		}
		time.Sleep(time.Millisecond)
	}
}

func (r *remoteConn) received() []byte {
	r.mu.Lock()
	defer r.mu.Unlock()
	return append([]byte(nil), r.in...)
}

type dialRemote struct {
	xb, ih, peerExt, peerID, padB, garb, probe []byte
	padD                                       int
	closeAfter                                 [2]int // bytes a hanging-up remote reads first, per connection
}

// plainReply: what a plaintext peer sends after it saw a plaintext handshake.
func (d *dialRemote) plainReply() []byte {
	return append(btHandshakeBytes(d.peerExt, d.ih, d.peerID), d.probe...)
}

// serve plays one connection. Returns when the dialer closed it (or the script closed it).
func (d *dialRemote) serve(r *remoteConn, kind string, k int) {
	defer r.c.Close()
	// A remote that hangs up first reads what the dialer sends before waiting for an answer, so the
	// bytes it received do not depend on timing.
	switch kind {
	case "close":
		r.need(d.closeAfter[k])
		return
	case "garbage":
		r.need(d.closeAfter[k])
		r.write(d.garb)
		return
	}
	if !r.need(20) {
		return
	}
	if bytes.Equal(r.at(0, 20), pstrBytes) {
		if !r.need(68) {
			return
		}
		if kind == "wrongih" {
			// a plaintext peer that serves another torrent: its handshake carries a different info hash. The dialer
			// must give up AND hang up; the remote keeps its end open and watches.
			other := append([]byte(nil), d.ih...)
			other[0] ^= 0xff
			r.write(btHandshakeBytes(d.peerExt, other, d.peerID))
			if !r.waitEOFFor(400 * time.Millisecond) {
				r.mu.Lock()
				r.leftOpen = true
				r.mu.Unlock()
			}
			return
		}
		r.write(d.plainReply())
		r.waitEOF()
		return
	}
	if kind == "plainpeer" || kind == "plainok" || kind == "wrongih" {
		r.need(d.closeAfter[k])
		return // not a plaintext handshake: a plaintext-only peer hangs up
	}
	// dual-mode peer: MSE receiver written from the specification
	if !r.need(96) {
		return
	}
	s := refDH(r.at(0, 96), d.xb)
	r.write(append(append([]byte{}, refPub(d.xb)...), d.padB...))
	req1 := refReq1(s)
	off := -1
	for o := 96; o <= 96+512; o++ {
		if !r.need(o + 20) {
			return
		}
		if bytes.Equal(r.at(o, o+20), req1) {
			off = o + 20
			break
		}
	}
	if off < 0 || !r.need(off+20) {
		return
	}
	if !bytes.Equal(refXor(r.at(off, off+20), refReq3(s)), refHashSKey(d.ih)) {
		return
	}
	off += 20
	dec := newRefCipher(true, s, d.ih)
	enc := newRefCipher(false, s, d.ih)
	rd := func(n int) []byte {
		if !r.need(off + n) {
			return nil
		}
		b := dec.x(r.at(off, off+n))
		off += n
		return b
	}
	hdr := rd(14)
	if hdr == nil || !bytes.Equal(hdr[:8], make([]byte, 8)) {
		return
	}
	provide := uint32(hdr[8])<<24 | uint32(hdr[9])<<16 | uint32(hdr[10])<<8 | uint32(hdr[11])
	if rd(int(hdr[12])<<8|int(hdr[13])) == nil {
		return
	}
	l := rd(2)
	if l == nil {
		return
	}
	ia := rd(int(l[0])<<8 | int(l[1]))
	if ia == nil {
		return
	}
	var sel uint32
	switch kind {
	case "rc4first", "trunc":
		if provide&2 != 0 {
			sel = 2
		} else if provide&1 != 0 {
			sel = 1
		}
	case "plainfirst":
		if provide&1 != 0 {
			sel = 1
		} else if provide&2 != 0 {
			sel = 2
		}
	case "badsel":
		sel = 1
		if provide&1 != 0 {
			sel = 4
		}
	}
	if sel == 0 {
		return
	}
	if kind == "trunc" {
		var plain []byte
		plain = append(plain, make([]byte, 8)...)
		plain = append(plain, mseBe32(sel)...)
		plain = append(plain, be16(100)...)
		plain = append(plain, make([]byte, 10)...)
		r.write(enc.x(plain))
		return
	}
	var plain []byte
	plain = append(plain, make([]byte, 8)...)
	plain = append(plain, mseBe32(sel)...)
	plain = append(plain, be16(d.padD)...)
	plain = append(plain, make([]byte, d.padD)...)
	r.write(enc.x(plain))
	if kind == "badsel" {
		r.waitEOF()
		return
	}
	// BitTorrent layer: the dialer sent its handshake as IA
	if len(ia) != 68 || !bytes.Equal(ia[:20], pstrBytes) {
		return
	}
	if sel == 1 {
		r.write(d.plainReply())
	} else {
		r.write(enc.x(d.plainReply()))
	}
	r.waitEOF()
}

func execDial(p mseParams, m map[string]string) string {
	ih := unhex(m["ih"])
	probe := unhex(m["probe"])
	d := &dialRemote{xb: p.xb, ih: ih, peerExt: unhex(m["peerext"]), peerID: unhex(m["peerid"]), padB: unhex(m["padb"]),
		garb: unhex(m["garb"]), probe: probe, padD: atoi(m["padd"])}
	d.closeAfter = [2]int{68, 68}
	if m["enable"] == "1" {
		d.closeAfter[0] = 96 + len(unhex(m["pada"]))
	}
	l, err := net.ListenTCP("tcp", &net.TCPAddr{IP: net.IPv4(127, 0, 0, 1), Port: 0})
	if err != nil {
		return "listen-failed"
	}
	addr := l.Addr()
	kinds := []string{m["c1"], m["c2"]}
	var remotes []*remoteConn
	var rmu sync.Mutex
	var wg sync.WaitGroup
	wg.Add(1)
	go func() {
		defer wg.Done()
		for k := 0; k < 2; k++ {
			if kinds[k] == "refuse" {
				break
			}
			c, err := l.Accept()
			if err != nil {
				return
			}
			if k+1 < 2 && kinds[k+1] == "refuse" || k == 1 {
				l.Close()
			}
			r := newRemoteConn(c)
			rmu.Lock()
			remotes = append(remotes, r)
			rmu.Unlock()
			wg.Add(1)
			go func(k int) {
				defer wg.Done()
				d.serve(r, kinds[k], k)
			}(k)
		}
		l.Close()
	}()

	sr, restore := installRand()
	defer restore()
	res := "?"
	var cipher uint32
	var ext [8]byte
	var id [20]byte
	var got []byte
	done := make(chan struct{})
	go func() {
		defer close(done)
		sr.setScript(randScriptOutgoing(p.xa, unhex(m["pada"]), atoi(m["padc"])))
		var conn net.Conn
		var c mse.CryptoMethod
		var e [8]byte
		var pid [20]byte
		var err error
		if m["via"] == "hs" {
			// through the handshaker the torrent starts for every dialled address: it receives the
			// configuration flags DisableOutgoingEncryption / ForceOutgoingEncryption as they are
			h := outgoinghandshaker.New(addr.(*net.TCPAddr), peersource.Manual)
			resultC := make(chan *outgoinghandshaker.OutgoingHandshaker, 1)
			h.Run(5*time.Second, 5*time.Second, arr20(unhex(m["ourid"])), arr20(ih), resultC, arr8(unhex(m["ourext"])),
				m["enable"] != "1", m["force"] == "1")
			<-resultC
			conn, c, e, pid, err = h.Conn, h.Cipher, h.Extensions, h.PeerID, h.Error
		} else {
			conn, c, e, pid, err = btconn.Dial(addr, 5*time.Second, 5*time.Second, m["enable"] == "1", m["force"] == "1",
				arr8(unhex(m["ourext"])), arr20(ih), arr20(unhex(m["ourid"])), make(chan struct{}))
		}
		if err != nil {
			res = "err:" + btErrEnum(err)
			return
		}
		res, cipher, ext, id = "ok", uint32(c), e, pid
		conn.Write(probe)
		got = make([]byte, len(probe))
		conn.SetReadDeadline(time.Now().Add(3 * time.Second))
		n, _ := io.ReadFull(conn, got)
		got = got[:n]
		conn.Close()
	}()
	<-done
	l.Close()
	wg.Wait()
	rmu.Lock()
	defer rmu.Unlock()
	ins := []string{"-", "-"}
	outs := []string{"-", "-"}
	for k, r := range remotes {
		ins[k] = hx(r.out)
		outs[k] = hx(r.received())
	}
	wire := "-"
	retried := 0
	if res == "ok" && len(remotes) > 0 {
		last := remotes[len(remotes)-1].received()
		if len(remotes) == 2 {
			retried = 1
		}
		if len(last) >= len(probe) && bytes.Equal(last[len(last)-len(probe):], probe) {
			wire = "plain"
		} else {
			wire = "enc"
		}
	}
	if res != "ok" {
		left := 0
		for _, r := range remotes {
			r.mu.Lock()
			if r.leftOpen {
				left = 1
			}
			r.mu.Unlock()
		}
		return fmt.Sprintf("res=%s conns=%d in1=%s in2=%s out1=%s out2=%s left=%d", res, len(remotes), ins[0], ins[1], outs[0], outs[1], left)
	}
	return fmt.Sprintf("res=ok cipher=%d retried=%d conns=%d ext=%s id=%s in1=%s in2=%s out1=%s out2=%s got=%s wire=%s",
		cipher, retried, len(remotes), hx(ext[:]), hx(id[:]), ins[0], ins[1], outs[0], outs[1], hx(got), wire)
}

// ---------------------------------------------------------------------------------------------
// generator: complete enumeration
// ---------------------------------------------------------------------------------------------

func genPolicy(r *Rng, n int, tier string) []Case {
	var cases []Case
	id := 0
	add := func(xa, xb, ih []byte, need int, run string) {
		id++
		cases = append(cases, Case{ID: fmt.Sprintf("policy-%d", id), Ops: []string{
			fmt.Sprintf("params xa=%s xb=%s skeys=%s ksn=%d", hx(xa), hx(xb), hx(ih), 1024+need),
			run,
		}})
	}
	cases = append(cases, Case{ID: "policy-wiring", Ops: []string{"wiring"}})
	rounds := 1
	if tier == "thorough" {
		rounds = 4
	}
	for round := 0; round < 2*rounds; round++ {
		via := []string{"direct", "hs"}[round%2]
		// ---- Accept: force × getSKey × known info hash × remote kind × where the BT handshake travels
		for _, force := range []int{0, 1} {
			for _, haskey := range []int{1, 0} {
				for _, known := range []int{1, 0} {
					for _, kind := range []string{"plain", "mse-rc4", "mse-plain", "mse-both", "mse-wrongkey", "mse-own", "garbage20", "garbage200"} {
						for _, variant := range []string{"ia", "after"} {
							if !strings.HasPrefix(kind, "mse") && variant == "after" {
								continue
							}
							xa, xb, ih := r.Bytes(20), r.Bytes(20), r.Bytes(20)
							ourID, peerID := r.Bytes(20), r.Bytes(20)
							ourExt, peerExt := r.Bytes(8), r.Bytes(8)
							probe, rprobe := r.Bytes(r.Range(1, 24)), r.Bytes(r.Range(1, 24))
							padA, padB := r.Bytes(genPadLen(r)), r.Bytes(genPadLen(r))
							padC, padD := genPadLen(r), genPadLen(r)
							if kind == "mse-own" {
								peerID = ourID
							}
							hs := btHandshakeBytes(peerExt, ih, peerID)
							var w1, w2 []byte
							n2 := 0
							switch kind {
							case "plain":
								w1 = append(append([]byte{}, hs...), rprobe...)
							case "garbage20":
								w1 = r.Bytes(20)
							case "garbage200":
								w1 = r.Bytes(200)
							default:
								s := refDH(refPub(xb), xa)
								provide := map[string]uint32{"mse-rc4": 2, "mse-plain": 1, "mse-both": 3, "mse-wrongkey": 3, "mse-own": 2}[kind]
								skey := ih
								if kind == "mse-wrongkey" {
									skey = r.Bytes(20)
								}
								w1 = append(append([]byte{}, refPub(xa)...), padA...)
								n2 = 96 + len(padB)
								payload := append(append([]byte{}, hs...), rprobe...)
								if variant == "ia" {
									w2 = refStep3(s, skey, make([]byte, 8), provide, padC, len(hs), hs, nil)
									// what follows the handshake depends on the method the acceptor will select
									sel := uint32(0)
									if provide&2 != 0 {
										sel = 2
									} else if provide&1 != 0 && force == 0 {
										sel = 1
									}
									w2 = appendAfter(w2, s, skey, sel, 14+padC+2+len(hs), rprobe)
								} else {
									w2 = refStep3(s, skey, make([]byte, 8), provide, padC, 0, nil, nil)
									sel := uint32(0)
									if provide&2 != 0 {
										sel = 2
									} else if provide&1 != 0 && force == 0 {
										sel = 1
									}
									w2 = appendAfter(w2, s, skey, sel, 14+padC+2, payload)
								}
							}
							add(xa, xb, ih, 14+512+2+68+64+14+512+68+64,
								fmt.Sprintf("accept via="+via+" force=%d haskey=%d known=%d ih=%s ourid=%s ourext=%s padb=%s padd=%d cb=%s w1=%s n2=%d w2=%s probe=%s",
									force, haskey, known, hx(ih), hx(ourID), hx(ourExt), hx(padB), padD, genChunks(r), hx(w1), n2, hx(w2), hx(probe)))
						}
					}
				}
			}
		}
		// ---- Dial: enable × force × first connection × second connection
		for _, enable := range []int{1, 0} {
			for _, force := range []int{0, 1} {
				for _, c1 := range []string{"plainpeer", "rc4first", "plainfirst", "trunc", "badsel", "garbage", "close"} {
					for _, c2 := range []string{"plainok", "close", "refuse", "wrongih"} {
						xa, xb, ih := r.Bytes(20), r.Bytes(20), r.Bytes(20)
						add(xa, xb, ih, 14+512+2+68+64+14+512+68+64,
							fmt.Sprintf("dial via="+via+" enable=%d force=%d ih=%s ourid=%s ourext=%s pada=%s padc=%d c1=%s c2=%s padb=%s padd=%d peerid=%s peerext=%s garb=%s probe=%s",
								enable, force, hx(ih), hx(r.Bytes(20)), hx(r.Bytes(8)), hx(r.Bytes(genPadLen(r))), genPadLen(r), c1, c2,
								hx(r.Bytes(genPadLen(r))), genPadLen(r), hx(r.Bytes(20)), hx(r.Bytes(8)), hx(r.Bytes(60)), hx(r.Bytes(r.Range(1, 24)))))
					}
				}
			}
		}
	}
	return cases
}

// appendAfter appends `data` as the initiator's stream continues after step 3: under RC4 the keyA
// stream goes on at position 1024+consumed, under plaintext (or when the handshake will fail) raw.
func appendAfter(w2, s, skey []byte, sel uint32, consumed int, data []byte) []byte {
	if sel == 2 {
		ks := refKS(true, s, skey, 1024+consumed+len(data))
		enc := make([]byte, len(data))
		for i := range data {
			enc[i] = data[i] ^ ks[1024+consumed+i]
		}
		return append(w2, enc...)
	}
	return append(w2, data...)
}
