//go:build verif

package main

import (
	"context"
	"fmt"
	"net/http"
	"net/http/httptest"
	"net/url"
	"strings"
	"sync"
	"time"

	"github.com/cenkalti/rain/v2/internal/tracker"
	"github.com/cenkalti/rain/v2/internal/tracker/httptracker"
	"github.com/cenkalti/rain/v2/internal/tracker/udptracker"
)

// Suite trkwire (C15): the bytes a tracker receives.
//   udp  ih=<hex20> pid=<hex20> port=<n> up=<i64> down=<i64> left=<i64> ev=<0..3> nw=<i32> conn=<u64> tx=<u32> url=<hex|->
//        -> datagram hex, built by the real newTransportRequest + WriteTo
//   udpconn tx=<u32>  -> connect datagram hex
//   http ih= pid= port= up= down= left= ev= nw= tid=<text|-> base=<plain|q>
//        -> raw query string received by an in-process HTTP tracker from the real HTTPTracker.Announce

func init() {
	register(&Suite{Name: "trkwire", Gen: genTrkwire, Exec: execTrkwire})
}

type wireHTTP struct {
	srv  *httptest.Server
	mu   sync.Mutex
	last string
	tid  string
}

var (
	wireOnce sync.Once
	wireSrv  *wireHTTP
)

func wireServer() *wireHTTP {
	wireOnce.Do(func() {
		w := &wireHTTP{}
		w.srv = httptest.NewServer(http.HandlerFunc(func(rw http.ResponseWriter, r *http.Request) {
			w.mu.Lock()
			w.last = r.URL.RawQuery
			tid := w.tid
			w.mu.Unlock()
			body := "d8:intervali1800e5:peers0:"
			if tid != "" {
				body += fmt.Sprintf("10:tracker id%d:%s", len(tid), tid)
			}
			body += "e"
			_, _ = rw.Write([]byte(body))
		}))
		wireSrv = w
	})
	return wireSrv
}

func genTorrentFields(r *Rng) string {
	pid := r.Bytes(20)
	switch r.Intn(8) {
	case 0:
		copy(pid[16:], []byte{0, 0, 0, 0})
	case 1:
		copy(pid[16:], []byte{0xff, 0xff, 0xff, 0xff})
	case 2:
		copy(pid, []byte("-RN2.0.0-"))
	case 3:
		for i := range pid {
			pid[i] = byte(0x20 + r.Intn(0x5f))
		}
	}
	ih := r.Bytes(20)
	if r.Chance(10) {
		ih = make([]byte, 20)
	}
	cnt := func() int64 {
		switch r.Intn(7) {
		case 0:
			return 0
		case 1:
			return 1
		case 2:
			return 1 << 31
		case 3:
			return 1<<32 + int64(r.Intn(1000))
		case 4:
			return 1<<63 - 1
		case 5:
			return -int64(r.Intn(5)) // counters are int64 in the code; a negative left is representable
		}
		return int64(r.U64() >> uint(r.Intn(63)+1))
	}
	port := r.Pick(0, 1, 80, 6881, 50000, 65535, r.Intn(65536))
	nw := r.Pick(0, 1, 50, 200, -1, 1<<31-1, r.Intn(1000))
	return fmt.Sprintf("ih=%s pid=%s port=%d up=%d down=%d left=%d ev=%d nw=%d", hexs(ih), hexs(pid), port, cnt(), cnt(), cnt(), r.Intn(4), nw)
}

func genTrkwire(r *Rng, n int, tier string) []Case {
	var cases []Case
	for i := 0; i < n; i++ {
		var ops []string
		k := r.Range(1, 4)
		for j := 0; j < k; j++ {
			switch r.Intn(10) {
			case 0:
				ops = append(ops, fmt.Sprintf("udpconn tx=%d", uint32(r.U64())))
			case 1, 2, 3:
				tid := "-"
				if r.Chance(40) {
					const al = "abcdefghijklmnopqrstuvwxyzABCDEFGHIJKLMNOPQRSTUVWXYZ0123456789-_.~"
					b := make([]byte, r.Range(1, 12))
					for x := range b {
						b[x] = al[r.Intn(len(al))]
					}
					tid = string(b)
				}
				tidx := ""
				if r.Chance(25) {
					// a tracker id is an opaque byte string chosen by the tracker
					b := r.Bytes(r.Range(1, 8))
					for x := range b {
						if r.Chance(60) {
							b[x] = []byte(" &#%+=?/\x00\x01\x7f\xff\n")[r.Intn(13)]
						}
					}
					tid, tidx = "-", " tidx="+hexs(b)
				}
				ops = append(ops, fmt.Sprintf("http %s tid=%s%s base=%s", genTorrentFields(r), tid, tidx, []string{"plain", "q"}[r.Intn(2)]))
			default:
				urlLen := r.Pick(0, 0, 1, 9, 254, 255, 256, 510, 511, r.Intn(600))
				u := make([]byte, urlLen)
				for x := range u {
					u[x] = byte(0x21 + r.Intn(0x5e))
				}
				conn := r.PickU(0, 1, 0x41727101980, 1<<63, ^uint64(0), r.U64())
				tx := uint32(r.PickU(0, 1, 1<<31, 1<<32-1, r.U64()&0xffffffff))
				ops = append(ops, fmt.Sprintf("udp %s conn=%d tx=%d url=%s", genTorrentFields(r), conn, tx, hexs(u)))
			}
		}
		cases = append(cases, Case{ID: fmt.Sprintf("trkwire-%d", i+1), Ops: ops})
	}
	return cases
}

func trkWireRequest(m map[string]string) tracker.AnnounceRequest {
	var t tracker.Torrent
	copy(t.InfoHash[:], unhex(m["ih"]))
	copy(t.PeerID[:], unhex(m["pid"]))
	t.Port = atoi(m["port"])
	t.BytesUploaded = atoi64(m["up"])
	t.BytesDownloaded = atoi64(m["down"])
	t.BytesLeft = atoi64(m["left"])
	return tracker.AnnounceRequest{Torrent: t, Event: tracker.Event(atoi(m["ev"])), NumWant: atoi(m["nw"])}
}

func execTrkwire(ops []string) []string {
	var obs []string
	for _, op := range ops {
		m := kv(op)
		switch m["_"] {
		case "udp":
			pkt := udptracker.VerifBuildAnnounce(trkWireRequest(m), string(unhex(m["url"])), int64(atou(m["conn"])), int32(uint32(atou(m["tx"]))))
			obs = append(obs, hexs(pkt))
		case "udpconn":
			obs = append(obs, hexs(udptracker.VerifBuildConnect(int32(uint32(atou(m["tx"]))))))
		case "http":
			w := wireServer()
			raw := w.srv.URL + "/announce"
			if m["base"] == "q" {
				raw += "?passkey=abc"
			}
			u, _ := url.Parse(raw)
			tr := httptracker.New(raw, u, 10*time.Second, &http.Transport{DisableKeepAlives: true}, "verif", 1<<20)
			req := trkWireRequest(m)
			ctx, cancel := context.WithTimeout(context.Background(), 10*time.Second)
			tid := m["tid"]
			if tid == "-" {
				tid = ""
			}
			if m["tidx"] != "" {
				tid = string(unhex(m["tidx"]))
			}
			var err error
			if tid != "" {
				// prime: the tracker hands out its id in the first reply, the client echoes it from then on
				w.mu.Lock()
				w.tid = tid
				w.mu.Unlock()
				_, err = tr.Announce(ctx, req)
			}
			if err == nil {
				w.mu.Lock()
				w.tid = ""
				w.last = "?"
				w.mu.Unlock()
				_, err = tr.Announce(ctx, req)
			}
			cancel()
			if err != nil {
				obs = append(obs, "error:"+strings.ReplaceAll(err.Error(), " ", "_"))
				continue
			}
			w.mu.Lock()
			obs = append(obs, w.last)
			w.mu.Unlock()
		default:
			obs = append(obs, "bad-op")
		}
	}
	return obs
}
