//go:build verif

package main

import (
	"context"
	"encoding/binary"
	"errors"
	"fmt"
	"io"
	"net"
	"net/http"
	"net/http/httptest"
	"net/url"
	"strconv"
	"strings"
	"sync"
	"time"

	"github.com/cenkalti/rain/v2/internal/tracker"
	"github.com/cenkalti/rain/v2/internal/tracker/httptracker"
	"github.com/cenkalti/rain/v2/internal/tracker/udptracker"
)

// Suite replies (C16): tracker reply bytes fed to the real parsers.
//   compact b=<hex>                                    tracker.DecodePeersCompact
//   udp fresh=<0|1> conn=<spec;…|-> ann=<spec;…|->      real udptracker.Transport + UDPTracker.Announce against an
//        in-process UDP endpoint that answers a connect request with the `conn` datagrams and an announce request
//        with the `ann` datagrams, each list followed by one correct reply (so every announce terminates).
//        spec = <action>.<txid xor>.<cut or -1>.<payload hex or ->: action(4) ++ (txid^xor)(4) ++ payload, cut to `cut` bytes
//   http limit=<n> chunked=<0|1> status=<code> kind=<compact|dict|fail|raw> vlen=<n> … body=<hex>
//        real HTTPTracker.Announce against an in-process HTTP server that sends `body`
// obs: ok iv=<s> mi=<s> peers=<a,b|-> | err | err:decode | err:tracker | err:status | err:toolarge | err:other:<msg>

func init() {
	register(&Suite{Name: "replies", Gen: genReplies, Exec: execReplies})
}

// ---- UDP endpoint ----

type udpScript struct {
	conn, ann []string
}

type udpStub struct {
	pc   *net.UDPConn
	mu   sync.Mutex
	scr  udpScript
	port int
}

var (
	udpStubOnce sync.Once
	udpStubInst *udpStub
)

const stubConnID = 0x1122334455667788

func buildSpec(spec string, tx uint32) []byte {
	f := strings.Split(spec, ".")
	if len(f) != 4 {
		return nil
	}
	b := make([]byte, 8)
	binary.BigEndian.PutUint32(b[0:4], uint32(atou(f[0])))
	binary.BigEndian.PutUint32(b[4:8], tx^uint32(atou(f[1])))
	b = append(b, unhex(f[3])...)
	if cut := atoi(f[2]); cut >= 0 && cut < len(b) {
		b = b[:cut]
	}
	return b
}

func udpStubGet() *udpStub {
	udpStubOnce.Do(func() {
		pc, err := net.ListenUDP("udp4", &net.UDPAddr{IP: net.IPv4(127, 0, 0, 1)})
		if err != nil {
			panic(err)
		}
		s := &udpStub{pc: pc, port: pc.LocalAddr().(*net.UDPAddr).Port}
		go func() {
			buf := make([]byte, 4096)
			for {
				n, from, err := pc.ReadFromUDP(buf)
				if err != nil {
					return
				}
				if n < 16 {
					continue
				}
				action := binary.BigEndian.Uint32(buf[8:12])
				tx := binary.BigEndian.Uint32(buf[12:16])
				s.mu.Lock()
				scr := s.scr
				s.mu.Unlock()
				var specs []string
				var last []byte
				if action == 0 {
					specs = scr.conn
					last = make([]byte, 16)
					binary.BigEndian.PutUint32(last[4:8], tx)
					binary.BigEndian.PutUint64(last[8:16], stubConnID)
				} else {
					specs = scr.ann
					last = make([]byte, 26)
					binary.BigEndian.PutUint32(last[0:4], 1)
					binary.BigEndian.PutUint32(last[4:8], tx)
					binary.BigEndian.PutUint32(last[8:12], 1800)
					binary.BigEndian.PutUint32(last[12:16], 3)
					binary.BigEndian.PutUint32(last[16:20], 7)
					copy(last[20:], []byte{9, 9, 9, 9, 0, 9})
				}
				for _, sp := range specs {
					if d := buildSpec(sp, tx); d != nil {
						_, _ = pc.WriteToUDP(d, from)
					}
				}
				_, _ = pc.WriteToUDP(last, from)
			}
		}()
		udpStubInst = s
	})
	return udpStubInst
}

// ---- HTTP endpoint ----

type httpScript struct {
	status  int
	chunked bool
	body    []byte
}

type httpStub struct {
	srv *httptest.Server
	mu  sync.Mutex
	scr httpScript
}

var (
	httpStubOnce sync.Once
	httpStubInst *httpStub
)

func httpStubGet() *httpStub {
	httpStubOnce.Do(func() {
		s := &httpStub{}
		s.srv = httptest.NewServer(http.HandlerFunc(func(rw http.ResponseWriter, r *http.Request) {
			s.mu.Lock()
			scr := s.scr
			s.mu.Unlock()
			if scr.chunked {
				rw.WriteHeader(scr.status)
				if fl, ok := rw.(http.Flusher); ok {
					fl.Flush() // headers go out without Content-Length: the body is chunked
				}
				_, _ = rw.Write(scr.body)
				return
			}
			rw.Header().Set("Content-Length", strconv.Itoa(len(scr.body)))
			rw.WriteHeader(scr.status)
			_, _ = rw.Write(scr.body)
		}))
		httpStubInst = s
	})
	return httpStubInst
}

// ---- observation helpers ----

func peersObs(peers []*net.TCPAddr) string {
	var ps []string
	for _, p := range peers {
		if p == nil {
			ps = append(ps, "nil")
			continue
		}
		ps = append(ps, p.String())
	}
	return joinOrDash(ps)
}

func repErrObs(err error) string {
	var terr *tracker.Error
	var serr *httptracker.StatusError
	switch {
	case errors.Is(err, tracker.ErrDecode):
		return "err:decode"
	case errors.As(err, &terr):
		return fmt.Sprintf("err:tracker ri=%d", int64(terr.RetryIn))
	case errors.As(err, &serr):
		return "err:status"
	case strings.Contains(err.Error(), "too large"):
		return "err:toolarge"
	case errors.Is(err, io.ErrUnexpectedEOF), errors.Is(err, io.EOF), err.Error() == "invalid action in connect response":
		// connect reply too short / wrong action (sendAndReceiveConnect)
		return "err:decode"
	}
	return "err:other:" + strings.ReplaceAll(err.Error(), " ", "_")
}

func respObs(resp *tracker.AnnounceResponse, err error) string {
	if err != nil {
		return repErrObs(err)
	}
	return fmt.Sprintf("ok iv=%d mi=%d peers=%s", int64(resp.Interval/time.Second), int64(resp.MinInterval/time.Second), peersObs(resp.Peers))
}

// ---- generator ----

func repBstr(s string) string { return fmt.Sprintf("%d:%s", len(s), s) }

func genUDPSpecs(r *Rng, forAnnounce bool) string {
	if r.Chance(35) {
		return "-"
	}
	var specs []string
	n := r.Range(1, 3)
	for i := 0; i < n; i++ {
		action := r.Pick(0, 1, 1, 3, 2, 7)
		if !forAnnounce {
			action = r.Pick(0, 0, 1, 3, 2)
		}
		xor := uint32(0)
		if r.Chance(40) {
			xor = uint32(r.PickU(1, 0x80000000, 0xffffffff, r.U64()&0xffffffff))
		}
		var payload []byte
		switch {
		case action == 3:
			payload = []byte(r.repPickStr("d14:failure reason4:nopee", "d14:failure reason4:nope8:retry in1:5e", "garbage", "", "d14:failure reasoni5ee",
				"d14:failure reason4:nope8:retry in16:3749353613647811e", "d14:failure reason4:nope8:retry in9:153722868e", "d14:failure reason4:nope8:retry in4:1441e"))
		case forAnnounce:
			np := r.Pick(0, 1, 2, 5)
			payload = make([]byte, 12+6*np)
			binary.BigEndian.PutUint32(payload[0:4], uint32(r.PickU(0, 1, 1800, 0x7fffffff, 0x80000000, 0xffffffff)))
			binary.BigEndian.PutUint32(payload[4:8], uint32(r.Intn(100)))
			binary.BigEndian.PutUint32(payload[8:12], uint32(r.Intn(100)))
			copy(payload[12:], r.Bytes(6*np))
			if r.Chance(25) {
				payload = append(payload, r.Bytes(r.Range(1, 5))...) // ragged peer list
			}
		default:
			payload = r.Bytes(r.Pick(8, 8, 8, 0, 3, 7, 12))
		}
		cut := -1
		if r.Chance(30) {
			cut = r.Pick(0, 1, 4, 7, 8, 9, 12, 15, 16, 19, 20, 21, 25)
		}
		specs = append(specs, fmt.Sprintf("%d.%d.%d.%s", action, xor, cut, hexs(payload)))
	}
	return strings.Join(specs, ";")
}

func (r *Rng) repPickStr(xs ...string) string { return xs[r.Intn(len(xs))] }

func genHTTPOp(r *Rng) string {
	kind := r.repPickStr("compact", "compact", "dict", "dict", "fail", "raw")
	status := r.Pick(200, 200, 200, 200, 404, 500)
	var body []byte
	extra := ""
	switch kind {
	case "compact":
		np := r.Pick(0, 1, 2, 3, 50)
		pe := r.Bytes(6 * np)
		iv := r.Pick(0, 1800, -3, 2147483647)
		mi := r.Pick(0, 0, 60, -1)
		xip := ""
		if np > 0 && r.Chance(30) {
			xip = string(pe[0:4])
		}
		s := "d"
		if xip != "" {
			s += repBstr("external ip") + repBstr(xip)
		}
		s += repBstr("interval") + fmt.Sprintf("i%de", iv) + repBstr("min interval") + fmt.Sprintf("i%de", mi) + repBstr("peers") + repBstr(string(pe)) + "e"
		body = []byte(s)
		extra = fmt.Sprintf("iv=%d mi=%d pe=%s xip=%s", iv, mi, hexs(pe), hexs([]byte(xip)))
	case "dict":
		n := r.Range(0, 4)
		var dps []string
		s := "d" + repBstr("interval") + "i900e" + repBstr("peers") + "l"
		for i := 0; i < n; i++ {
			ip := r.repPickStr("1.2.3.4", "10.0.0.1", "255.255.255.255", "tracker.example.org", "", "::1", "2001:db8::1", "1.2.3", "999.1.1.1", "localhost")
			port := r.Pick(0, 1, 6881, 65535)
			s += "d" + repBstr("ip") + repBstr(ip) + repBstr("port") + fmt.Sprintf("i%de", port) + "e"
			dps = append(dps, fmt.Sprintf("%s|%d", hexs([]byte(ip)), port))
		}
		s += "ee"
		body = []byte(s)
		extra = "iv=900 mi=0 dp=" + joinOrDash(dps)
	case "fail":
		// `retry in` is a number of minutes as a string; also values whose conversion to a duration overflows
		rs := r.repPickStr("5", "never", "", "0", "1", "-3", "1440", "1441", "153722867", "153722868", "3749353613647811",
			"307445734561825", "9223372036854775807", "9223372036854775808", "99999999999999999999", "+7", "07", " 5")
		body = []byte("d" + repBstr("failure reason") + repBstr("not registered") + repBstr("retry in") + repBstr(rs) + "e")
		extra = "rs=" + hexs([]byte(rs))
	case "raw":
		body = r.Bytes(r.Range(0, 40))
		if r.Chance(50) {
			b := []byte("d8:intervali1800e5:peers12:" + string(r.Bytes(12)) + "e")
			for k := r.Range(1, 3); k > 0; k-- {
				b[r.Intn(len(b))] = byte(r.U64())
			}
			body = b
		}
	}
	vlen := len(body)
	if kind != "raw" && r.Chance(30) {
		body = append(body, r.Bytes(r.Range(1, 30))...) // trailing bytes after the bencoded value
	}
	limit := r.Pick(1<<20, 1<<20, len(body), len(body)+1, len(body)-1, vlen, vlen-1, vlen/2, 1)
	if limit < 0 {
		limit = 0
	}
	return fmt.Sprintf("http limit=%d chunked=%s status=%d kind=%s vlen=%d %s body=%s", limit, b01(r.Chance(40)), status, kind, vlen, extra, hexs(body))
}

func genReplies(r *Rng, n int, tier string) []Case {
	var cases []Case
	for i := 0; i < n; i++ {
		var ops []string
		switch r.Intn(10) {
		case 0, 1:
			for k := r.Range(1, 3); k > 0; k-- {
				ln := r.Pick(0, 1, 5, 6, 7, 11, 12, 13, 18, 60, 6*r.Intn(20), r.Intn(100))
				ops = append(ops, "compact b="+hexs(r.Bytes(ln)))
			}
		case 2, 3, 4, 5:
			for k := r.Range(1, 3); k > 0; k-- {
				ops = append(ops, fmt.Sprintf("udp fresh=%s conn=%s ann=%s", b01(r.Chance(50)), genUDPSpecs(r, false), genUDPSpecs(r, true)))
			}
		default:
			for k := r.Range(1, 2); k > 0; k-- {
				ops = append(ops, genHTTPOp(r))
			}
		}
		cases = append(cases, Case{ID: fmt.Sprintf("replies-%d", i+1), Ops: ops})
	}
	return cases
}

// ---- executor ----

func execReplies(ops []string) []string {
	var obs []string
	var tp *udptracker.Transport
	defer func() {
		if tp != nil {
			tp.Close()
		}
	}()
	for _, op := range ops {
		m := kv(op)
		switch m["_"] {
		case "compact":
			addrs, err := tracker.DecodePeersCompact(unhex(m["b"]))
			if err != nil {
				obs = append(obs, "err")
			} else {
				obs = append(obs, "ok peers="+peersObs(addrs))
			}
		case "udp":
			st := udpStubGet()
			if tp == nil || m["fresh"] == "1" {
				if tp != nil {
					tp.Close()
				}
				tp = udptracker.NewTransport(nil, time.Second)
				go tp.Run()
			}
			st.mu.Lock()
			st.scr = udpScript{conn: splitSpecs(m["conn"]), ann: splitSpecs(m["ann"])}
			st.mu.Unlock()
			raw := fmt.Sprintf("udp://127.0.0.1:%d/announce", st.port)
			u, _ := url.Parse(raw)
			trk := udptracker.New(raw, u, tp)
			ctx, cancel := context.WithTimeout(context.Background(), 10*time.Second)
			resp, err := trk.Announce(ctx, tracker.AnnounceRequest{NumWant: 50})
			cancel()
			obs = append(obs, respObs(resp, err))
		case "http":
			st := httpStubGet()
			st.mu.Lock()
			st.scr = httpScript{status: atoi(m["status"]), chunked: m["chunked"] == "1", body: unhex(m["body"])}
			st.mu.Unlock()
			raw := st.srv.URL + "/announce"
			u, _ := url.Parse(raw)
			tr := &http.Transport{DisableKeepAlives: true}
			trk := httptracker.New(raw, u, 10*time.Second, tr, "verif", int64(atoi(m["limit"])))
			ctx, cancel := context.WithTimeout(context.Background(), 10*time.Second)
			resp, err := trk.Announce(ctx, tracker.AnnounceRequest{NumWant: 50})
			cancel()
			tr.CloseIdleConnections()
			obs = append(obs, respObs(resp, err))
		default:
			obs = append(obs, "bad-op")
		}
	}
	return obs
}

func splitSpecs(s string) []string {
	if s == "" || s == "-" {
		return nil
	}
	return strings.Split(s, ";")
}
