//go:build verif

package main

import (
	"context"
	"encoding/binary"
	"fmt"
	"net"
	"net/http"
	"strconv"
	"strings"
	"sync/atomic"
	"time"

	"github.com/cenkalti/rain/v2/internal/blocklist"
	"github.com/cenkalti/rain/v2/internal/logger"
	"github.com/cenkalti/rain/v2/internal/tracker"
	"github.com/cenkalti/rain/v2/internal/trackermanager"
)

// Suite trkdial (C18): the real tracker manager (its HTTP transport with the blocklist-checking dial hook) announces
// to a tracker given by HOST NAME. The name is served by a name server of the harness on loopback (installed as the
// process-wide resolver for the duration of the op) whose answers may differ from query to query or carry several
// addresses; trackers of the harness listen on 127.0.0.2 (allowed) and 127.0.0.3 (blocked: 127.0.0.3/32) on one port.
//
//   op : trkdial ans=<a1;a2;…>     the k-th A query is answered with a_k (the last one from then on); an answer is a
//                                  `+`-joined list of the last octets (2 = 127.0.0.2, 3 = 127.0.0.3, 9 = nobody listens)
//   obs: res=<ok|blocked|err> hit2=<n> hit3=<n> q=<number of A queries>
//
// Oracle: the blocked address is never contacted, whatever the name server says on a later question.

func init() {
	register(&Suite{Name: "trkdial", Gen: genTrkDial, Exec: execTrkDial})
}

func genTrkDial(r *Rng, n int, tier string) []Case {
	var cases []Case
	answers := []string{"2", "3", "2;3", "3;2", "2+3", "3+2", "9+3", "9+2", "2;2;3", "2;9+3", "9"}
	for i := 0; i < n; i++ {
		cases = append(cases, Case{ID: fmt.Sprintf("trkdial-%d", i+1), Ops: []string{"trkdial ans=" + answers[(i+r.Intn(3))%len(answers)]}})
	}
	return cases
}

type tdDNS struct {
	conn *net.UDPConn
	ans  [][]net.IP
	nq   atomic.Int32
}

func (s *tdDNS) serve() {
	buf := make([]byte, 1500)
	for {
		n, raddr, err := s.conn.ReadFromUDP(buf)
		if err != nil {
			return
		}
		if n < 12 {
			continue
		}
		q := buf[:n]
		i := 12
		for i < n && q[i] != 0 {
			i += int(q[i]) + 1
		}
		i++
		if i+4 > n {
			continue
		}
		qtype := binary.BigEndian.Uint16(q[i:])
		qend := i + 4
		var ips []net.IP
		if qtype == 1 && len(s.ans) > 0 {
			k := int(s.nq.Add(1)) - 1
			if k >= len(s.ans) {
				k = len(s.ans) - 1
			}
			ips = s.ans[k]
		}
		resp := []byte{q[0], q[1], 0x85, 0x80, 0, 1, 0, byte(len(ips)), 0, 0, 0, 0}
		resp = append(resp, q[12:qend]...)
		for _, ip := range ips {
			resp = append(resp, 0xC0, 0x0C, 0, 1, 0, 1, 0, 0, 0, 0, 0, 4)
			resp = append(resp, ip.To4()...)
		}
		_, _ = s.conn.WriteToUDP(resp, raddr)
	}
}

type tdTracker struct {
	l    net.Listener
	srv  *http.Server
	hits atomic.Int32
}

func tdListen(ip string, port int) *tdTracker {
	l, err := net.Listen("tcp4", net.JoinHostPort(ip, strconv.Itoa(port)))
	if err != nil {
		return nil
	}
	t := &tdTracker{l: l}
	t.srv = &http.Server{Handler: http.HandlerFunc(func(w http.ResponseWriter, r *http.Request) {
		t.hits.Add(1)
		_, _ = w.Write([]byte("d8:intervali1800e5:peers0:e"))
	})}
	go func() { _ = t.srv.Serve(l) }()
	return t
}

func execTrkDial(ops []string) []string {
	logger.Disable()
	var obs []string
	for _, op := range ops {
		obs = append(obs, trkDialOne(kv(op)))
	}
	return obs
}

func trkDialOne(m map[string]string) string {
	var ans [][]net.IP
	for _, a := range strings.Split(m["ans"], ";") {
		var ips []net.IP
		for _, o := range strings.Split(a, "+") {
			ips = append(ips, net.IPv4(127, 0, 0, byte(atoi(o))))
		}
		ans = append(ans, ips)
	}
	// two trackers on one port
	var t2, t3 *tdTracker
	for try := 0; try < 20 && (t2 == nil || t3 == nil); try++ {
		if t2 != nil {
			t2.srv.Close()
		}
		t2 = tdListen("127.0.0.2", 0)
		if t2 == nil {
			return "error:listen"
		}
		t3 = tdListen("127.0.0.3", t2.l.Addr().(*net.TCPAddr).Port)
	}
	if t3 == nil {
		t2.srv.Close()
		return "error:listen"
	}
	defer t2.srv.Close()
	defer t3.srv.Close()
	port := t2.l.Addr().(*net.TCPAddr).Port
	conn, err := net.ListenUDP("udp4", &net.UDPAddr{IP: net.IPv4(127, 0, 0, 1)})
	if err != nil {
		return "error:dns"
	}
	dns := &tdDNS{conn: conn, ans: ans}
	go dns.serve()
	defer conn.Close()
	old := net.DefaultResolver
	net.DefaultResolver = &net.Resolver{PreferGo: true, Dial: func(ctx context.Context, _, _ string) (net.Conn, error) {
		var d net.Dialer
		return d.DialContext(ctx, "udp4", conn.LocalAddr().String())
	}}
	defer func() { net.DefaultResolver = old }()

	bl := blocklist.New()
	if _, err := bl.Reload(strings.NewReader("127.0.0.3/32\n")); err != nil {
		return "error:blocklist"
	}
	tm := trackermanager.New(bl, 2*time.Second, false)
	defer tm.Close()
	tr, err := tm.Get(fmt.Sprintf("http://rebind.verif.test:%d/announce", port), 3*time.Second, "verif", 1<<20)
	if err != nil {
		return "error:get"
	}
	ctx, cancel := context.WithTimeout(context.Background(), 6*time.Second)
	_, err = tr.Announce(ctx, tracker.AnnounceRequest{Torrent: tracker.Torrent{Port: 6881, BytesLeft: 1}, Event: tracker.EventStarted, NumWant: 50})
	cancel()
	res := "ok"
	switch {
	case err == nil:
	case strings.Contains(err.Error(), "blocked"):
		res = "blocked"
	default:
		res = "err"
	}
	return fmt.Sprintf("res=%s hit2=%d hit3=%d q=%d", res, t2.hits.Load(), t3.hits.Load(), dns.nq.Load())
}
