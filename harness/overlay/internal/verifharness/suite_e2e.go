//go:build verif

package main

import (
	"bytes"
	"crypto/sha1"
	"fmt"
	"net"
	"net/http"
	"os"
	"path/filepath"
	"strings"
	"time"

	"github.com/cenkalti/rain/v2/internal/logger"
	"github.com/cenkalti/rain/v2/torrent"
	"github.com/zeebo/bencode"
)

// Suite e2e (C10, with C12's forced-encryption and C01's end-state oracles): two real sessions with real file
// storage over loopback and/or an HTTP web seed. The leecher must finish with files byte-identical to the
// seeder's for every generated layout (empty files, padding files, odd piece lengths), picker mode,
// encryption setting, source mix and for .torrent / magnet adds.
//
// op : e2e pl=<n> files=<len>:<pad>,… seq=0|1 enc=plain|prefer|force magnet=0|1 src=peer|web|both seed=<n>
// obs: done=<0|1> disk=<ok|bad|-> enc=<ok|plaintext-peer|-> err=<class|-> have=<pieces claimed> good=<pieces correct on disk>

func init() {
	register(&Suite{Name: "e2e", Gen: genE2E, Exec: execE2E})
}

func genE2E(r *Rng, n int, tier string) []Case {
	var cases []Case
	for i := 0; i < n; i++ {
		var l layout
		l.pl = r.Pick(16384, 16384, 32768, 16384+4096, 49152, 20000)
		nf := r.Range(1, 5)
		for j := 0; j < nf; j++ {
			pad := j > 0 && r.Chance(25)
			ln := r.Pick(0, 1, l.pl-1, l.pl, l.pl+1, 2*l.pl, r.Range(1, 4*l.pl), 100000)
			if pad {
				ln = r.Pick(1, l.pl/2, l.pl-1, l.pl, r.Range(1, 2*l.pl))
			}
			l.lens = append(l.lens, ln)
			l.pads = append(l.pads, pad)
			l.total += ln
		}
		if l.total == 0 {
			l.lens[0] = l.pl + 7
			l.total = l.pl + 7
		}
		src := r.Pick2("peer", "peer", "web", "both", "web2", "web2")
		if src == "web2" || (src == "web" && r.Chance(35)) {
			// a lying web seed (same sizes, wrong bytes) next to an honest one; enough pieces for multi-piece ranges
			// (ranges are numPieces/20 long) and pieces big enough that the source is well into its next piece
			// when the verdict on the previous one arrives
			l = layout{pl: 262144}
			nf2 := r.Range(1, 3)
			for j := 0; j < nf2; j++ {
				ln := r.Range(40, 70)*l.pl/nf2 + r.Pick(0, 1, 777)
				l.lens = append(l.lens, ln)
				l.pads = append(l.pads, false)
				l.total += ln
			}
		}
		magnet := r.Chance(25) && src != "web" && src != "web2"
		seqPct := 40
		if src == "web2" {
			seqPct = 15 // sequential mode fetches file tails as single-piece ranges first, which hides range bookkeeping
		}
		pre := "-"
		if r.Chance(15) {
			pre = r.Pick2("long", "short", "junk") // files of the torrent already exist in the download directory
		}
		cases = append(cases, Case{ID: fmt.Sprintf("e2e-%d", i+1), Ops: []string{
			fmt.Sprintf("e2e pl=%d files=%s seq=%s enc=%s magnet=%s src=%s seed=%d pre=%s", l.pl, l.filesArg(), b01(r.Chance(seqPct)),
				r.Pick2("plain", "prefer", "force"), b01(magnet), src, r.Intn(1<<30), pre)}})
	}
	return cases
}

func e2eCfg(dir string) torrent.Config {
	cfg := torrent.DefaultConfig
	cfg.Database = filepath.Join(dir, "session.db")
	cfg.DataDir = filepath.Join(dir, "data")
	cfg.DataDirIncludesTorrentID = false
	cfg.RPCEnabled = false
	cfg.DHTEnabled = false
	cfg.Host = "127.0.0.1"
	cfg.PortBegin = 20000
	if ln, err := net.Listen("tcp4", "127.0.0.1:0"); err == nil {
		cfg.PortBegin = uint16(ln.Addr().(*net.TCPAddr).Port)
		ln.Close()
	}
	cfg.PortEnd = cfg.PortBegin + 1
	cfg.TrackerStopTimeout = 100 * time.Millisecond
	cfg.MaxOpenFiles = 0
	cfg.HealthCheckInterval = time.Hour
	return cfg
}

func execE2E(ops []string) []string {
	var obs []string
	for _, op := range ops {
		obs = append(obs, e2eOne(kv(op)))
	}
	return obs
}

func e2eOne(m map[string]string) string {
	logger.Disable()
	pl := atoi(m["pl"])
	var lens []int
	var pads []bool
	for _, f := range commaList(m["files"]) {
		p := strings.Split(f, ":")
		lens = append(lens, atoi(p[0]))
		pads = append(pads, len(p) > 1 && p[1] == "1")
	}
	r := NewRng(atou(m["seed"]), "e2e")
	root, err := os.MkdirTemp("", "verife2e")
	if err != nil {
		return "done=0 disk=- enc=- err=tmp"
	}
	defer os.RemoveAll(root)
	single := len(lens) == 1 && !pads[0]
	fileName := func(i int) string {
		if single {
			return "t"
		}
		return filepath.Join("t", fmt.Sprintf("f%d", i))
	}
	// content and files of the seeder
	seedDir := filepath.Join(root, "seed")
	var content []byte
	var files []interface{}
	for i, ln := range lens {
		var data []byte
		if pads[i] {
			data = make([]byte, ln)
			files = append(files, map[string]interface{}{"length": ln, "path": []string{".pad", fmt.Sprint(ln)}, "attr": "p"})
		} else {
			data = r.Bytes(ln)
			p := filepath.Join(seedDir, "data", fileName(i))
			_ = os.MkdirAll(filepath.Dir(p), 0o755)
			_ = os.WriteFile(p, data, 0o644)
			files = append(files, map[string]interface{}{"length": ln, "path": []string{fmt.Sprintf("f%d", i)}})
		}
		content = append(content, data...)
	}
	var pieces []byte
	for off := 0; off < len(content); off += pl {
		e := min(off+pl, len(content))
		h := sha1.Sum(content[off:e])
		pieces = append(pieces, h[:]...)
	}
	info := map[string]interface{}{"name": "t", "piece length": pl, "pieces": pieces}
	if single {
		info["length"] = lens[0]
	} else {
		info["files"] = files
	}
	ib, _ := bencode.EncodeBytes(info)
	meta := map[string]interface{}{"info": bencode.RawMessage(ib)}
	usePeer := m["src"] != "web" && m["src"] != "web2"
	useWeb := m["src"] != "peer"
	var srv *http.Server
	if useWeb {
		ln, err := net.Listen("tcp4", "127.0.0.1:0")
		if err != nil {
			return "done=0 disk=- enc=- err=listen"
		}
		srv = &http.Server{Handler: http.FileServer(http.Dir(filepath.Join(seedDir, "data")))}
		go srv.Serve(ln) // nolint
		defer srv.Close()
		urls := []string{fmt.Sprintf("http://%s/", ln.Addr().String())}
		if m["src"] == "web2" {
			// the lying web seed serves files of the right sizes with wrong content
			badDir := filepath.Join(root, "bad")
			off := 0
			for i, fl := range lens {
				if !pads[i] {
					bp := filepath.Join(badDir, fileName(i))
					_ = os.MkdirAll(filepath.Dir(bp), 0o755)
					bad := append([]byte(nil), content[off:off+fl]...)
					for j := range bad {
						bad[j] ^= 0xA5
					}
					_ = os.WriteFile(bp, bad, 0o644)
				}
				off += fl
			}
			ln2, err := net.Listen("tcp4", "127.0.0.1:0")
			if err == nil {
				srv2 := &http.Server{Handler: http.FileServer(http.Dir(badDir))}
				go srv2.Serve(ln2) // nolint
				defer srv2.Close()
				urls = append([]string{fmt.Sprintf("http://%s/", ln2.Addr().String())}, urls...)
			}
		}
		meta["url-list"] = urls
	}
	tb, _ := bencode.EncodeBytes(meta)

	scfg := e2eCfg(seedDir)
	lcfg := e2eCfg(filepath.Join(root, "leech"))
	lcfg.WebseedRetryInterval = time.Second
	switch m["enc"] {
	case "plain":
		lcfg.DisableOutgoingEncryption = true
	case "force":
		lcfg.ForceOutgoingEncryption = true
		scfg.ForceIncomingEncryption = true
	}
	var ss *torrent.Session
	var st *torrent.Torrent
	if usePeer {
		ss, err = torrent.NewSession(scfg)
		if err != nil {
			return "done=0 disk=- enc=- err=seeder"
		}
		defer ss.Close()
		st, err = ss.AddTorrent(bytes.NewReader(tb), nil)
		if err != nil {
			return "done=0 disk=- enc=- err=add-seed:" + strings.ReplaceAll(err.Error(), " ", "_")
		}
		deadline := time.Now().Add(10 * time.Second)
		for st.Stats().Status != torrent.Seeding && time.Now().Before(deadline) {
			time.Sleep(2 * time.Millisecond)
		}
		if st.Stats().Status != torrent.Seeding {
			return "done=0 disk=- enc=- err=seeder-not-seeding:" + strings.ReplaceAll(st.Stats().Status.String(), " ", "")
		}
	}
	if pre := m["pre"]; pre == "long" || pre == "short" || pre == "junk" {
		// older, longer or shorter editions of the files are already in the leecher's download directory
		off := 0
		for i, ln := range lens {
			if !pads[i] {
				var b []byte
				switch pre {
				case "long":
					b = append(append([]byte{}, content[off:off+ln]...), bytes.Repeat([]byte{0xEE}, 1000)...)
				case "short":
					b = append([]byte{}, content[off:off+ln/2]...)
				default:
					b = bytes.Repeat([]byte{0x5A}, ln)
				}
				p := filepath.Join(root, "leech", "data", fileName(i))
				_ = os.MkdirAll(filepath.Dir(p), 0o755)
				_ = os.WriteFile(p, b, 0o644)
			}
			off += ln
		}
	}
	ls, err := torrent.NewSession(lcfg)
	if err != nil {
		return "done=0 disk=- enc=- err=leecher"
	}
	defer ls.Close()
	opt := &torrent.AddTorrentOptions{Sequential: m["seq"] == "1"}
	var lt *torrent.Torrent
	if m["magnet"] == "1" {
		ih := sha1.Sum(ib)
		lt, err = ls.AddURI(fmt.Sprintf("magnet:?xt=urn:btih:%x&dn=t&x.pe=127.0.0.1:%d", ih[:], st.Port()), opt)
	} else {
		lt, err = ls.AddTorrent(bytes.NewReader(tb), opt)
		if err == nil && usePeer {
			err = lt.AddPeer(fmt.Sprintf("127.0.0.1:%d", st.Port()))
		}
	}
	if err != nil {
		return "done=0 disk=- enc=- err=add-leech:" + strings.ReplaceAll(err.Error(), " ", "_")
	}
	encVerdict := "-"
	done := 0
	deadline := time.Now().Add(25 * time.Second)
	for time.Now().Before(deadline) {
		if usePeer && m["enc"] == "force" {
			for _, p := range lt.Peers() {
				if !p.EncryptedStream {
					encVerdict = "plaintext-peer"
				}
			}
			if encVerdict == "-" && len(lt.Peers()) > 0 {
				encVerdict = "ok"
			}
		}
		st2 := lt.Stats()
		if st2.Status == torrent.Seeding {
			done = 1
			break
		}
		if st2.Status == torrent.Stopped && st2.Error != nil {
			return fmt.Sprintf("done=0 disk=- enc=%s err=stopped:%s", encVerdict, strings.ReplaceAll(st2.Error.Error(), " ", "_"))
		}
		time.Sleep(3 * time.Millisecond)
	}
	// C01 end-state oracle, also when the download did not finish: the number of pieces the leecher claims
	// (read first) must not exceed the number of pieces whose bytes on disk (read afterwards) hash correctly
	have := int(lt.Stats().Pieces.Have)
	good := 0
	{
		var got []byte
		for i, ln := range lens {
			b := make([]byte, ln)
			if !pads[i] {
				if fb, err := os.ReadFile(filepath.Join(root, "leech", "data", fileName(i))); err == nil {
					copy(b, fb)
				}
			}
			got = append(got, b...)
		}
		for i, off := 0, 0; off < len(got); i, off = i+1, off+pl {
			h := sha1.Sum(got[off:min(off+pl, len(got))])
			if bytes.Equal(h[:], pieces[20*i:20*i+20]) {
				good++
			}
		}
	}
	disk := "-"
	if done == 1 {
		disk = "ok"
		off := 0
		for i, ln := range lens {
			if !pads[i] {
				b, err := os.ReadFile(filepath.Join(root, "leech", "data", fileName(i)))
				if err != nil || !bytes.Equal(b, content[off:off+ln]) {
					disk = "bad"
				}
			}
			off += ln
		}
	}
	return fmt.Sprintf("done=%d disk=%s enc=%s err=- have=%d good=%d", done, disk, encVerdict, have, good)
}
