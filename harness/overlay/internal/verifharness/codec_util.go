//go:build verif

package main

import (
	"os"
	"fmt"
	"io"
	"net"
	"runtime"
	"sort"
	"strconv"
	"strings"
	"sync"
	"time"

	"github.com/cenkalti/log"
	"github.com/cenkalti/rain/v2/internal/peerconn/peerreader"
	"github.com/cenkalti/rain/v2/internal/peerprotocol"
)

// ---------------------------------------------------------------------------------------------
// Shared by the suites `codec` (C11) and `reader` (C08 reader half): a capturing logger, in-memory
// connections, canonical printing of decoded messages, running the real PeerReader on a byte stream.
// ---------------------------------------------------------------------------------------------

// errLogger implements logger.Logger; it remembers the error values passed to Error/Debug.
type errLogger struct {
	mu   sync.Mutex
	errs []error
}

func (l *errLogger) grab(args []interface{}) {
	for _, a := range args {
		if e, ok := a.(error); ok {
			l.mu.Lock()
			l.errs = append(l.errs, e)
			l.mu.Unlock()
		}
	}
}
func (l *errLogger) last() error {
	l.mu.Lock()
	defer l.mu.Unlock()
	if len(l.errs) == 0 {
		return nil
	}
	return l.errs[len(l.errs)-1]
}
func (l *errLogger) SetLevel(log.Level)                 {}
func (l *errLogger) SetHandler(log.Handler)             {}
func (l *errLogger) SetCallDepth(int)                   {}
func (l *errLogger) Fatal(args ...interface{})          {}
func (l *errLogger) Fatalf(string, ...interface{})      {}
func (l *errLogger) Fatalln(args ...interface{})        {}
func (l *errLogger) Panic(args ...interface{})          {}
func (l *errLogger) Panicf(string, ...interface{})      {}
func (l *errLogger) Panicln(args ...interface{})        {}
func (l *errLogger) Critical(args ...interface{})       {}
func (l *errLogger) Criticalf(string, ...interface{})   {}
func (l *errLogger) Criticalln(args ...interface{})     {}
func (l *errLogger) Error(args ...interface{})          { l.grab(args) }
func (l *errLogger) Errorf(string, ...interface{})      {}
func (l *errLogger) Errorln(args ...interface{})        { l.grab(args) }
func (l *errLogger) Warning(args ...interface{})        {}
func (l *errLogger) Warningf(string, ...interface{})    {}
func (l *errLogger) Warningln(args ...interface{})      {}
func (l *errLogger) Notice(args ...interface{})         {}
func (l *errLogger) Noticef(string, ...interface{})     {}
func (l *errLogger) Noticeln(args ...interface{})       {}
func (l *errLogger) Info(args ...interface{})           {}
func (l *errLogger) Infof(string, ...interface{})       {}
func (l *errLogger) Infoln(args ...interface{})         {}
func (l *errLogger) Debug(args ...interface{})          { l.grab(args) }
func (l *errLogger) Debugf(string, ...interface{})      {}
func (l *errLogger) Debugln(args ...interface{})        {}

type fakeAddr struct{}

func (fakeAddr) Network() string { return "tcp" }
func (fakeAddr) String() string  { return "verif:0" }

// fragReader hands out the stream in fragments of the given sizes (cycled), then io.EOF.
type fragReader struct {
	data  []byte
	pos   int
	frags []int
	fi    int
	// stream positions at which the read deadline expires once before more bytes arrive (a slow peer)
	cuts map[int]bool
}

func (c *fragReader) Read(p []byte) (int, error) {
	if c.pos >= len(c.data) {
		return 0, io.EOF
	}
	if len(p) == 0 {
		return 0, nil
	}
	if c.cuts[c.pos] {
		delete(c.cuts, c.pos)
		return 0, os.ErrDeadlineExceeded
	}
	n := 1 << 30
	if len(c.frags) > 0 {
		n = c.frags[c.fi%len(c.frags)]
		c.fi++
		if n < 1 {
			n = 1
		}
	}
	if n > len(p) {
		n = len(p)
	}
	if n > len(c.data)-c.pos {
		n = len(c.data) - c.pos
	}
	for q := c.pos + 1; q < c.pos+n; q++ {
		if c.cuts[q] {
			n = q - c.pos // a fragment ends where the deadline expires
			break
		}
	}
	copy(p, c.data[c.pos:c.pos+n])
	c.pos += n
	return n, nil
}

// rconn is the net.Conn given to the real PeerReader.
type rconn struct{ fragReader }

func (c *rconn) Write(b []byte) (int, error)        { return len(b), nil }
func (c *rconn) Close() error                       { return nil }
func (c *rconn) LocalAddr() net.Addr                { return fakeAddr{} }
func (c *rconn) RemoteAddr() net.Addr               { return fakeAddr{} }
func (c *rconn) SetDeadline(t time.Time) error      { return nil }
func (c *rconn) SetReadDeadline(t time.Time) error  { return nil }
func (c *rconn) SetWriteDeadline(t time.Time) error { return nil }

func parseFrags(s string) []int {
	var out []int
	for _, t := range commaList(s) {
		out = append(out, atoi(t))
	}
	return out
}

// parseChunks: comma separated chunks, each `<hex>` or `<hex>*<count>` (the hex string repeated).
func parseChunks(s string) []byte {
	var out []byte
	for _, t := range commaList(s) {
		if i := strings.IndexByte(t, '*'); i >= 0 {
			unit := unhex(t[:i])
			n := atoi(t[i+1:])
			for k := 0; k < n; k++ {
				out = append(out, unit...)
			}
		} else {
			out = append(out, unhex(t)...)
		}
	}
	return out
}

func hexOrDash(b []byte) string { return hexs(b) }

// canonMsg prints a message delivered by PeerReader (or built for PeerWriter) canonically.
func canonMsg(m interface{}) string {
	switch v := m.(type) {
	case peerprotocol.ChokeMessage:
		return "choke"
	case peerprotocol.UnchokeMessage:
		return "unchoke"
	case peerprotocol.InterestedMessage:
		return "interested"
	case peerprotocol.NotInterestedMessage:
		return "notinterested"
	case peerprotocol.HaveAllMessage:
		return "haveall"
	case peerprotocol.HaveNoneMessage:
		return "havenone"
	case peerprotocol.HaveMessage:
		return fmt.Sprintf("have:%d", v.Index)
	case peerprotocol.AllowedFastMessage:
		return fmt.Sprintf("allowedfast:%d", v.Index)
	case peerprotocol.BitfieldMessage:
		return "bitfield:" + hexs(v.Data)
	case peerprotocol.RequestMessage:
		return fmt.Sprintf("request:%d:%d:%d", v.Index, v.Begin, v.Length)
	case peerprotocol.CancelMessage:
		return fmt.Sprintf("cancel:%d:%d:%d", v.Index, v.Begin, v.Length)
	case peerprotocol.RejectMessage:
		return fmt.Sprintf("reject:%d:%d:%d", v.Index, v.Begin, v.Length)
	case peerprotocol.PortMessage:
		return fmt.Sprintf("port:%d", v.Port)
	case peerreader.Piece:
		s := fmt.Sprintf("piece:%d:%d:%s", v.Index, v.Begin, hexs(v.Buffer.Data))
		v.Buffer.Release()
		return s
	case peerprotocol.ExtensionHandshakeMessage:
		var keys []string
		for k := range v.M {
			keys = append(keys, k)
		}
		sort.Strings(keys)
		var parts []string
		for _, k := range keys {
			parts = append(parts, hexs([]byte(k))+"="+strconv.Itoa(int(v.M[k])))
		}
		return fmt.Sprintf("exths:%s:%s:%s:%d:%d", joinOrDash(parts), hexs([]byte(v.V)), hexs([]byte(v.YourIP)), v.MetadataSize, v.RequestQueue)
	case peerprotocol.ExtensionMetadataMessage:
		return fmt.Sprintf("extmd:%d:%d:%d:%s", v.Type, v.Piece, v.TotalSize, hexs(v.Data))
	case peerprotocol.ExtensionPEXMessage:
		return fmt.Sprintf("extpex:%s:%s", hexs([]byte(v.Added)), hexs([]byte(v.Dropped)))
	default:
		return fmt.Sprintf("unknown:%T", m)
	}
}

// errClass maps the error the reader logged when it stopped to the model's classes.
func errClass(e error) string {
	if e == nil {
		return "eof" // io.EOF / io.ErrUnexpectedEOF: the stream ended, nothing is logged
	}
	s := e.Error()
	switch {
	case strings.Contains(s, "received message larger than allowed"):
		return "oversize"
	case strings.Contains(s, "block size larger than allowed"):
		return "blocksize"
	default:
		return "ext"
	}
}

type readResult struct {
	msgs     []string
	end      string
	alloc    uint64 // bytes allocated (runtime.MemStats.TotalAlloc delta) while the reader ran
	timedOut bool
}

// runReader feeds stream to a real PeerReader (maxMsgSize = max) in the given fragments and
// collects what it delivers until its run loop returns.
func runReader(stream []byte, max int, frags []int, cuts ...int) readResult {
	lg := &errLogger{}
	cm := map[int]bool{}
	for _, c := range cuts {
		cm[c] = true
	}
	conn := &rconn{fragReader{data: stream, frags: frags, cuts: cm}}
	pr := peerreader.New(conn, lg, time.Minute, max, nil)
	var res readResult
	var ms0, ms1 runtime.MemStats
	runtime.ReadMemStats(&ms0)
	// Run executes on this goroutine's child so that a Go panic inside the read loop is an
	// observation (end=panic:<msg>) with a replayable case instead of a dead harness process.
	panicked := make(chan string, 1)
	go func() {
		defer func() {
			if r := recover(); r != nil {
				panicked <- strings.ReplaceAll(strings.ReplaceAll(fmt.Sprint(r), " ", "_"), "\n", "_")
			}
		}()
		pr.Run()
	}()
	deadline := time.After(60 * time.Second)
	var panicMsg string
loop:
	for {
		select {
		case m := <-pr.Messages():
			res.msgs = append(res.msgs, canonMsg(m))
		case <-pr.Done():
			select {
			case panicMsg = <-panicked:
			default:
			}
			break loop
		case <-deadline:
			res.timedOut = true
			pr.Stop()
			<-pr.Done()
			break loop
		}
	}
	runtime.ReadMemStats(&ms1)
	res.alloc = ms1.TotalAlloc - ms0.TotalAlloc
	res.end = errClass(lg.last())
	if res.timedOut {
		res.end = "hang"
	}
	if panicMsg == "" {
		select {
		case panicMsg = <-panicked:
		default:
		}
	}
	if panicMsg != "" {
		res.end = "panic:" + panicMsg
	}
	return res
}

func msgsString(ms []string) string {
	if len(ms) == 0 {
		return "-"
	}
	return strings.Join(ms, ";")
}
