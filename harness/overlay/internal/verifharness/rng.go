//go:build verif

package main

import (
	"fmt"
	"strconv"
	"strings"
)

// Rng is splitmix64; every random choice of a run derives from one state.
type Rng struct{ s uint64 }

func NewRng(seed uint64, salt string) *Rng {
	r := &Rng{s: seed*0x9E3779B97F4A7C15 + 0x1234567}
	for _, c := range []byte(salt) {
		r.s = r.s*31 + uint64(c)
		r.U64()
	}
	return r
}

func (r *Rng) U64() uint64 {
	r.s += 0x9E3779B97F4A7C15
	z := r.s
	z = (z ^ (z >> 30)) * 0xBF58476D1CE4E5B9
	z = (z ^ (z >> 27)) * 0x94D049BB133111EB
	return z ^ (z >> 31)
}

// Intn returns a value in [0,n). n<=0 gives 0.
func (r *Rng) Intn(n int) int {
	if n <= 0 {
		return 0
	}
	return int(r.U64() % uint64(n))
}

// Range returns a value in [lo,hi].
func (r *Rng) Range(lo, hi int) int {
	if hi <= lo {
		return lo
	}
	return lo + r.Intn(hi-lo+1)
}

func (r *Rng) Bool() bool { return r.U64()&1 == 1 }

// Chance returns true with probability pct/100.
func (r *Rng) Chance(pct int) bool { return r.Intn(100) < pct }

func (r *Rng) Pick(xs ...int) int { return xs[r.Intn(len(xs))] }

func (r *Rng) Pick2(xs ...string) string { return xs[r.Intn(len(xs))] }

func (r *Rng) PickS(xs ...string) string { return xs[r.Intn(len(xs))] }

func (r *Rng) PickU(xs ...uint64) uint64 { return xs[r.Intn(len(xs))] }

func (r *Rng) Bytes(n int) []byte {
	b := make([]byte, n)
	for i := range b {
		b[i] = byte(r.U64())
	}
	return b
}

// U32Edge draws a 32-bit value biased to the edges relevant to a length `ln`.
func (r *Rng) U32Edge(ln uint32) uint32 {
	c := []uint32{0, 1, ln - 1, ln, ln + 1, 1 << 14, 1<<14 + 1, 1 << 31, -ln, 0xFFFFFFFF, uint32(r.U64())}
	return c[r.Intn(len(c))]
}

// --- op-line helpers ---

func kv(op string) map[string]string {
	m := map[string]string{}
	for i, t := range strings.Fields(op) {
		if i == 0 {
			m["_"] = t
			continue
		}
		if j := strings.IndexByte(t, '='); j >= 0 {
			m[t[:j]] = t[j+1:]
		}
	}
	return m
}

func atoi(s string) int {
	n, _ := strconv.Atoi(s)
	return n
}

func atoi64(s string) int64 {
	n, _ := strconv.ParseInt(s, 10, 64)
	return n
}

func atou(s string) uint64 {
	n, _ := strconv.ParseUint(s, 10, 64)
	return n
}

func commaList(s string) []string {
	if s == "" || s == "-" {
		return nil
	}
	return strings.Split(s, ",")
}

func joinOrDash(xs []string) string {
	if len(xs) == 0 {
		return "-"
	}
	return strings.Join(xs, ",")
}

func hexs(b []byte) string {
	if len(b) == 0 {
		return "-"
	}
	return fmt.Sprintf("%x", b)
}

func unhex(s string) []byte {
	if s == "-" || s == "" {
		return nil
	}
	b := make([]byte, len(s)/2)
	for i := range b {
		v, _ := strconv.ParseUint(s[2*i:2*i+2], 16, 8)
		b[i] = byte(v)
	}
	return b
}

func b01(b bool) string {
	if b {
		return "1"
	}
	return "0"
}
