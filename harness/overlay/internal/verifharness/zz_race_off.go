//go:build verif && !race

package main

const raceDetector = false
