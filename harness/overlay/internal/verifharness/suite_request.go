//go:build verif

package main

import (
	"encoding/binary"
	"fmt"
	"net"
	"time"

	"github.com/cenkalti/rain/v2/internal/logger"
	"github.com/cenkalti/rain/v2/internal/peerconn/peerreader"
	"github.com/cenkalti/rain/v2/internal/peerprotocol"
	"github.com/cenkalti/rain/v2/torrent"
)

// Suite request (C03): the bounds check of a peer's request message and the reader's length cap.
//   op: valid b=<u32> l=<u32> pl=<u32>      obs: 1 | 0           (real torrent.validPieceRequest)
//   op: wire i=<u32> b=<u32> l=<u32>        obs: msg:<i>,<b>,<l> | closed | other:<type>
//       (a request frame written to a real PeerReader over a net.Pipe; `closed` = reader returned)

func init() {
	register(&Suite{Name: "request", Gen: genRequest, Exec: execRequest})
}

func u32Edges(pl uint32) []uint32 {
	return []uint32{0, 1, 2, pl - 1, pl, pl + 1, pl / 2, 1 << 14, 1<<14 - 1, 1<<14 + 1, 1 << 31, 1<<31 - 1, -pl, -pl + 1, -pl - 1,
		0xFFFFFFFF, 0xFFFFFFFE, 0xFFFFC000, 0xFFFFC001, 0x80000001}
}

func genRequest(r *Rng, n int, tier string) []Case {
	var cases []Case
	id := 0
	add := func(ops []string) {
		id++
		cases = append(cases, Case{ID: fmt.Sprintf("request-%d", id), Ops: ops})
	}
	// Complete product of the edge sets for a list of piece lengths.
	pls := []uint32{0, 1, 2, 7, 16383, 16384, 16385, 32768, 1 << 18, 1 << 20, 1<<20 + 5, 1 << 24, 1 << 31, 1<<31 + 1, 0xFFFFFFFF, 0xFFFFFFFE, 0xFFFFC000}
	for _, pl := range pls {
		ed := u32Edges(pl)
		for _, b := range ed {
			var ops []string
			for _, l := range ed {
				ops = append(ops, fmt.Sprintf("valid b=%d l=%d pl=%d", b, l, pl))
			}
			// the complementary value that makes b+l hit pl, pl+1, pl+2^32 exactly
			for _, l := range []uint32{pl - b, pl - b + 1, pl - b - 1, -b, -b + 1} {
				ops = append(ops, fmt.Sprintf("valid b=%d l=%d pl=%d", b, l, pl))
			}
			add(ops)
		}
	}
	// Reader cap: every length around MaxBlockSize and the 32-bit edges.
	var wops []string
	for _, l := range []uint32{0, 1, 16383, 16384, 16385, 16386, 32768, 1 << 20, 1 << 31, 0xFFFFFFFF, 0xFFFFC000, 0x80004000} {
		wops = append(wops, fmt.Sprintf("wire i=%d b=%d l=%d", r.Intn(4), r.U32Edge(16384), l))
	}
	add(wops)
	// Generated triples.
	for i := 0; i < n; i++ {
		pl := uint32(r.PickU(1, 5, 16384, 16384*2, 1<<18, 1<<20, 1<<22, uint64(r.U32Edge(1<<18)), uint64(uint32(r.U64()))))
		var ops []string
		k := r.Range(4, 12)
		for j := 0; j < k; j++ {
			b, l := r.U32Edge(pl), r.U32Edge(pl)
			switch r.Intn(6) {
			case 0:
				l = pl - b + uint32(r.Intn(3)) - 1
			case 1:
				b = uint32(r.Intn(int(pl%65536) + 1))
				l = uint32(r.Range(0, 16385))
			case 2:
				b = -l + uint32(r.Intn(3)) - 1 // b+l wraps to about 0
			}
			if r.Chance(8) {
				ops = append(ops, fmt.Sprintf("wire i=%d b=%d l=%d", r.Intn(8), b, l))
			} else {
				ops = append(ops, fmt.Sprintf("valid b=%d l=%d pl=%d", b, l, pl))
			}
		}
		add(ops)
	}
	return cases
}

// wireRequest feeds one request frame to a real PeerReader.
func wireRequest(i, b, l uint32) string {
	logger.Disable()
	server, client := net.Pipe()
	pr := peerreader.New(server, logger.New("verif"), time.Minute, 1<<20, nil)
	go pr.Run()
	frame := make([]byte, 17)
	binary.BigEndian.PutUint32(frame[0:4], 13)
	frame[4] = byte(peerprotocol.Request)
	binary.BigEndian.PutUint32(frame[5:9], i)
	binary.BigEndian.PutUint32(frame[9:13], b)
	binary.BigEndian.PutUint32(frame[13:17], l)
	go func() { _, _ = client.Write(frame) }()
	var obs string
	select {
	case m := <-pr.Messages():
		if rm, ok := m.(peerprotocol.RequestMessage); ok {
			obs = fmt.Sprintf("msg:%d,%d,%d", rm.Index, rm.Begin, rm.Length)
		} else {
			obs = fmt.Sprintf("other:%T", m)
		}
	case <-pr.Done():
		obs = "closed"
	case <-time.After(10 * time.Second):
		obs = "timeout"
	}
	pr.Stop()
	client.Close()
	server.Close()
	<-pr.Done()
	return obs
}

func execRequest(ops []string) []string {
	var obs []string
	for _, op := range ops {
		m := kv(op)
		switch m["_"] {
		case "valid":
			obs = append(obs, b01(torrent.VerifValidPieceRequest(uint32(atou(m["b"])), uint32(atou(m["l"])), uint32(atou(m["pl"])))))
		case "wire":
			obs = append(obs, wireRequest(uint32(atou(m["i"])), uint32(atou(m["b"])), uint32(atou(m["l"]))))
		default:
			obs = append(obs, "unknown-op")
		}
	}
	return obs
}
