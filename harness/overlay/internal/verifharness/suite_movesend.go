//go:build verif

package main

import (
	"archive/tar"
	"bytes"
	"crypto/sha1"
	"fmt"
	"io"
	"os"
	"path/filepath"
	"sort"
	"strings"
	"time"

	"github.com/cenkalti/rain/v2/internal/logger"
	"github.com/cenkalti/rain/v2/torrent"
	"github.com/zeebo/bencode"
)

// Suite movesend (C07): the sending side of a torrent move. A real session on a file storage, a torrent with a
// crafted name, files in its data directory, files OUTSIDE the session's data directory that carry a marker, and
// the real generateTar: the archive holds the files of the directory the storage uses for the torrent, and never a
// byte read outside the session's data directory.
//
// op : movesend incl=<0|1> name=<hexE> multi=<0|1> in=<rel,…> out=<rel,…>
//      in  = files written below the torrent's data directory before the archive is made (relative to it)
//      out = files written relative to the session's DataDir, all leading outside of it ("../x/y")
// obs: rejected | ok entries=<sorted names> leak=<0|1> | error:<what>

func init() {
	register(&Suite{Name: "movesend", Gen: genMoveSend, Exec: execMoveSend})
}

const moveSendMarker = "VERIF-OUTSIDE-MARKER"

func genMoveSend(r *Rng, n int, tier string) []Case {
	var cases []Case
	names := []string{"t", "x y", "../private", "../../etc", "a/../../private", "private/..", "..private", "./../private", "/abs", "..\\private", "../private/", "dir/sub"}
	for i := 0; i < n; i++ {
		name := names[r.Intn(len(names))]
		var in []string
		for k := r.Range(0, 3); k > 0; k-- {
			in = append(in, r.Pick2S("a", "b.bin", "sub/c", "private", "t/x", ".._private/f"))
		}
		out := []string{"../private/secret", "../private/sub/deep", "../secret", "../../etc/passwd"}
		cases = append(cases, Case{ID: fmt.Sprintf("movesend-%d", i+1), Ops: []string{
			fmt.Sprintf("movesend incl=%s name=%s multi=%s in=%s out=%s", b01(r.Chance(40)), hexE(name), b01(r.Bool()), joinOrDash(uniq(in)), joinOrDash(out))}})
	}
	return cases
}

func (r *Rng) Pick2S(xs ...string) string { return xs[r.Intn(len(xs))] }

func uniq(xs []string) []string {
	seen := map[string]bool{}
	var out []string
	for _, x := range xs {
		// a name must not be both a file and a directory prefix of another
		ok := !seen[x]
		for y := range seen {
			if strings.HasPrefix(y, x+"/") || strings.HasPrefix(x, y+"/") {
				ok = false
			}
		}
		if ok {
			seen[x] = true
			out = append(out, x)
		}
	}
	return out
}

func execMoveSend(ops []string) []string {
	var obs []string
	for _, op := range ops {
		obs = append(obs, moveSendOne(kv(op)))
	}
	return obs
}

func moveSendOne(m map[string]string) string {
	logger.Disable()
	base, err := os.MkdirTemp("", "verifsend")
	if err != nil {
		return "error:tmp"
	}
	defer os.RemoveAll(base)
	// the session's data directory lies three levels deep, so that every `out` path stays inside `base`
	dataDir := filepath.Join(base, "l1", "l2", "data")
	cfg := torrent.DefaultConfig
	cfg.Database = filepath.Join(base, "session.db")
	cfg.DataDir = dataDir
	cfg.DataDirIncludesTorrentID = m["incl"] == "1"
	cfg.RPCEnabled = false
	cfg.DHTEnabled = false
	cfg.Host = "127.0.0.1"
	cfg.ResumeOnStartup = false
	cfg.TrackerStopTimeout = 50 * time.Millisecond
	s, err := torrent.NewSession(cfg)
	if err != nil {
		return "error:session"
	}
	defer s.Close()
	name := unhexE(m["name"])
	h := sha1.Sum([]byte("0123456789"))
	info := map[string]interface{}{"name": name, "piece length": 16384, "pieces": h[:]}
	if m["multi"] == "1" {
		info["files"] = []interface{}{map[string]interface{}{"length": 10, "path": []string{"f"}}}
	} else {
		info["length"] = 10
	}
	ib, _ := bencode.EncodeBytes(info)
	mi, _ := bencode.EncodeBytes(map[string]interface{}{"info": bencode.RawMessage(ib)})
	t, err := s.AddTorrent(bytes.NewReader(mi), &torrent.AddTorrentOptions{Stopped: true})
	if err != nil {
		return "rejected"
	}
	root := torrent.VerifSessionDataDir(s, t.ID())
	if root == "" {
		return "error:storage"
	}
	write := func(p, content string) bool {
		if err := os.MkdirAll(filepath.Dir(p), 0o755); err != nil {
			return false
		}
		return os.WriteFile(p, []byte(content), 0o644) == nil
	}
	for _, rel := range commaList(m["in"]) {
		if !write(filepath.Join(root, filepath.FromSlash(rel)), "inside:"+rel) {
			return "error:write-in"
		}
	}
	for _, rel := range commaList(m["out"]) {
		p := filepath.Join(dataDir, filepath.FromSlash(rel))
		if !strings.HasPrefix(p, base+string(os.PathSeparator)) || strings.HasPrefix(p, dataDir+string(os.PathSeparator)) {
			return "error:out-path"
		}
		if !write(p, moveSendMarker+":"+rel) {
			return "error:write-out"
		}
	}
	arch, err := torrent.VerifGenerateTar(t)
	if err != nil {
		return "error:tar:" + strings.ReplaceAll(err.Error(), " ", "_")
	}
	leak := bytes.Contains(arch, []byte(moveSendMarker))
	var entries []string
	tr := tar.NewReader(bytes.NewReader(arch))
	for {
		hdr, err := tr.Next()
		if err == io.EOF {
			break
		}
		if err != nil {
			return "error:untar"
		}
		body, _ := io.ReadAll(tr)
		if bytes.Contains(body, []byte(moveSendMarker)) {
			leak = true
		}
		entries = append(entries, hexE(hdr.Name))
	}
	sort.Strings(entries)
	return fmt.Sprintf("ok entries=%s leak=%s", joinOrDash(entries), b01(leak))
}
