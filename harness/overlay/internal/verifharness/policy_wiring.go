//go:build verif

package main

// `wiring` op of suite policy: the two call sites in package torrent that hand the configuration's
// encryption flags to the handshakers cannot be executed without the event loop, so they are read
// from the current source (go/parser): which configuration field travels in the argument position
// whose meaning the `via=hs` cases establish dynamically.

import (
	"bytes"
	"go/ast"
	"go/parser"
	"go/printer"
	"go/token"
	"os"
	"path/filepath"
	"strings"
)

func repoRoot() string {
	if r := os.Getenv("VERIF_REPO"); r != "" {
		return r
	}
	return "/repo"
}

// lastName: `a.b.C` → `C`; any other expression is printed in full.
func lastName(fset *token.FileSet, e ast.Expr) string {
	if s, ok := e.(*ast.SelectorExpr); ok {
		return s.Sel.Name
	}
	var b bytes.Buffer
	printer.Fprint(&b, fset, e)
	return strings.ReplaceAll(b.String(), " ", "")
}

// runArgs returns the arguments of the (single) `go h.Run(...)` statement of a file.
func runArgs(path string) (*token.FileSet, []ast.Expr) {
	fset := token.NewFileSet()
	f, err := parser.ParseFile(fset, path, nil, 0)
	if err != nil {
		return fset, nil
	}
	var args []ast.Expr
	n := 0
	ast.Inspect(f, func(nd ast.Node) bool {
		g, ok := nd.(*ast.GoStmt)
		if !ok {
			return true
		}
		if sel, ok := g.Call.Fun.(*ast.SelectorExpr); ok && sel.Sel.Name == "Run" {
			if id, ok := sel.X.(*ast.Ident); ok && id.Name == "h" {
				args = g.Call.Args
				n++
			}
		}
		return true
	})
	if n != 1 {
		return fset, nil
	}
	return fset, args
}

func execWiring() string {
	root := repoRoot()
	in := "?"
	if fs, a := runArgs(filepath.Join(root, "torrent", "torrent_connection.go")); len(a) == 7 {
		in = lastName(fs, a[6])
	}
	out := "?"
	if fs, a := runArgs(filepath.Join(root, "torrent", "torrent_peer.go")); len(a) == 8 {
		out = lastName(fs, a[6]) + "," + lastName(fs, a[7])
	}
	return "incoming.force=" + in + " outgoing.disable,force=" + out
}
