//go:build verif

package main

import (
	"encoding/base32"
	"encoding/hex"
	"fmt"
	"net/url"
	"strings"

	"github.com/cenkalti/rain/v2/internal/magnet"
)

// Suite magnet (C13): the real magnet.New / (*Magnet).String.
//
//	rt ih=<40 hex> dn=<hx> tr=<tier;tier;…|-> pe=<hx,hx,…|->
//	    tier = <hx,hx,…> or `_` for an empty tier; hx = hex of the bytes, `.` for the empty string
//	    Exec: m.String() -> s; pairs written (s split on & and first =, url.QueryUnescape on both
//	    sides, by this file, not by url.ParseQuery); magnet.New(s).
//	    obs: q=<hxk:hxv,…> res=ok ih=… dn=… tr=… pe=…  |  q=… res=err:<kind>
//	parse scheme=<s> q=<hxk:hxv,…|->
//	    Exec: s = scheme + ":?" + k=v&… with url.QueryEscape on keys and values; magnet.New(s)
//	    obs: res=ok ih=… dn=… tr=… pe=… | res=err:<kind>

func init() {
	register(&Suite{Name: "magnet", Gen: genMagnet, Exec: execMagnet})
}

func magHx(s string) string {
	if s == "" {
		return "."
	}
	return hex.EncodeToString([]byte(s))
}

func magUnhx(s string) string {
	if s == "." || s == "" {
		return ""
	}
	b, _ := hex.DecodeString(s)
	return string(b)
}

func magHxList(xs []string) string {
	if len(xs) == 0 {
		return "-"
	}
	out := make([]string, len(xs))
	for i, x := range xs {
		out[i] = magHx(x)
	}
	return strings.Join(out, ",")
}

func magUnhxList(s string) []string {
	if s == "-" || s == "" {
		return nil
	}
	var out []string
	for _, p := range strings.Split(s, ",") {
		out = append(out, magUnhx(p))
	}
	return out
}

func magTiersString(tiers [][]string) string {
	if len(tiers) == 0 {
		return "-"
	}
	out := make([]string, len(tiers))
	for i, t := range tiers {
		if len(t) == 0 {
			out[i] = "_"
		} else {
			out[i] = magHxList(t)
		}
	}
	return strings.Join(out, ";")
}

func magParseTiers(s string) [][]string {
	if s == "-" || s == "" {
		return nil
	}
	var out [][]string
	for _, t := range strings.Split(s, ";") {
		if t == "_" {
			out = append(out, []string{})
		} else {
			out = append(out, magUnhxList(t))
		}
	}
	return out
}

func magPairsString(ps [][2]string) string {
	if len(ps) == 0 {
		return "-"
	}
	out := make([]string, len(ps))
	for i, p := range ps {
		out[i] = magHx(p[0]) + ":" + magHx(p[1])
	}
	return strings.Join(out, ",")
}

func magParsePairs(s string) [][2]string {
	if s == "-" || s == "" {
		return nil
	}
	var out [][2]string
	for _, p := range strings.Split(s, ",") {
		kvp := strings.SplitN(p, ":", 2)
		if len(kvp) != 2 {
			continue
		}
		out = append(out, [2]string{magUnhx(kvp[0]), magUnhx(kvp[1])})
	}
	return out
}

func magnetErrKind(err error) string {
	e := err.Error()
	switch {
	case strings.Contains(e, "not a magnet link"):
		return "notmagnet"
	case strings.Contains(e, "missing xt"):
		return "missingxt"
	case strings.Contains(e, "empty xt"):
		return "emptyxt"
	case strings.Contains(e, "v2 is not supported"):
		return "v2only"
	case strings.Contains(e, "invalid xt param"):
		return "badxt"
	case strings.Contains(e, "32 or 40 characters"):
		return "hashlen"
	case strings.Contains(e, "encoding/hex"):
		return "hexerr"
	case strings.Contains(e, "base32"):
		return "b32err"
	}
	return "url"
}

func magnetResult(m *magnet.Magnet, err error) string {
	if err != nil {
		return "res=err:" + magnetErrKind(err)
	}
	return fmt.Sprintf("res=ok ih=%s dn=%s tr=%s pe=%s", hex.EncodeToString(m.InfoHash[:]), magHx(m.Name), magTiersString(m.Trackers), magHxList(m.Peers))
}

// writtenPairs decodes what String() wrote, without url.ParseQuery.
func magWrittenPairs(s string) string {
	rest, ok := strings.CutPrefix(s, "magnet:?")
	if !ok {
		return "noprefix"
	}
	var ps [][2]string
	for _, part := range strings.Split(rest, "&") {
		k, v, _ := strings.Cut(part, "=")
		k2, err1 := url.QueryUnescape(k)
		v2, err2 := url.QueryUnescape(v)
		if err1 != nil || err2 != nil {
			return "undecodable:" + magHx(part)
		}
		ps = append(ps, [2]string{k2, v2})
	}
	return magPairsString(ps)
}

func execMagnet(ops []string) []string {
	var obs []string
	for _, op := range ops {
		m := kv(op)
		switch m["_"] {
		case "rt":
			var mg magnet.Magnet
			copy(mg.InfoHash[:], unhex(m["ih"]))
			mg.Name = magUnhx(m["dn"])
			mg.Trackers = magParseTiers(m["tr"])
			mg.Peers = magUnhxList(m["pe"])
			s := mg.String()
			m2, err := magnet.New(s)
			obs = append(obs, "q="+magWrittenPairs(s)+" "+magnetResult(m2, err))
		case "parse":
			var parts []string
			for _, p := range magParsePairs(m["q"]) {
				parts = append(parts, url.QueryEscape(p[0])+"="+url.QueryEscape(p[1]))
			}
			s := m["scheme"] + ":?" + strings.Join(parts, "&")
			m2, err := magnet.New(s)
			obs = append(obs, magnetResult(m2, err))
		default:
			obs = append(obs, "unknown-op")
		}
	}
	return obs
}

var magnetTrackerPool = []string{
	"http://tracker.example/announce", "udp://tracker.rain:2710", "http://a/b?c=d&e=f", "http://[::1]:80/x",
	"https://t.example/a%20b", "udp://x:1", "wss://w.example/#frag", "", "http://a/;p",
}

var magnetPeerPool = []string{
	"1.2.3.4:6881", "[2001:db8::1]:6881", "host.example:51413", "10.0.0.1:1", "peer-7.example.org:6889",
}

var magnetOddPeers = []string{"[fe80::1%eth0]:6881", "a&b", "x+y:1", "p%zz", "", "a=b:2", "a#b", "a;b", "h st:1", "%41:1"}

var magnetNamePool = []string{
	"", "sample_torrent", "a b", "a&b=c", "na\xc3\xafve", "%41", "a+b", "#frag", ";semi", "x\x00y", "\xff\xfe", "tr.1=x", "名前",
}

func genMagnetStr(r *Rng, pool []string) string {
	if r.Chance(12) {
		return string(r.Bytes(r.Range(1, 6)))
	}
	return pool[r.Intn(len(pool))]
}

func genMagnet(r *Rng, n int, tier string) []Case {
	var cases []Case
	for c := 0; c < n; c++ {
		id := fmt.Sprintf("magnet-%d", c+1)
		if r.Chance(55) {
			// round trip of an exported link
			ih := r.Bytes(20)
			if r.Chance(5) {
				ih = make([]byte, 20)
			}
			name := genMagnetStr(r, magnetNamePool)
			var tiers [][]string
			nt := r.Pick(0, 1, 1, 2, 2, 3, 4, 5)
			for i := 0; i < nt; i++ {
				sz := r.Pick(1, 1, 1, 2, 2, 3)
				if r.Chance(4) {
					sz = 0
				}
				t := []string{}
				for j := 0; j < sz; j++ {
					t = append(t, genMagnetStr(r, magnetTrackerPool))
				}
				if len(tiers) > 0 && r.Chance(10) { // identical tier twice
					t = append([]string{}, tiers[r.Intn(len(tiers))]...)
				}
				tiers = append(tiers, t)
			}
			var peers []string
			for i, np := 0, r.Pick(0, 0, 1, 2, 3); i < np; i++ {
				if r.Chance(15) {
					peers = append(peers, magnetOddPeers[r.Intn(len(magnetOddPeers))])
				} else {
					peers = append(peers, magnetPeerPool[r.Intn(len(magnetPeerPool))])
				}
			}
			cases = append(cases, Case{ID: id, Ops: []string{fmt.Sprintf("rt ih=%x dn=%s tr=%s pe=%s", ih, magHx(name), magTiersString(tiers), magHxList(peers))}})
			continue
		}
		// parse of an arbitrary parameter list
		var ps [][2]string
		ih := r.Bytes(20)
		hexs := hex.EncodeToString(ih)
		b32 := base32.StdEncoding.EncodeToString(ih)
		addXt := func() {
			switch x := r.Intn(100); {
			case x < 25:
				ps = append(ps, [2]string{"xt", "urn:btih:" + hexs})
			case x < 35:
				ps = append(ps, [2]string{"xt", "urn:btih:" + strings.ToUpper(hexs)})
			case x < 55:
				ps = append(ps, [2]string{"xt", "urn:btih:" + b32})
			case x < 60:
				ps = append(ps, [2]string{"xt", "urn:btih:" + strings.ToLower(b32)})
			case x < 65:
				ps = append(ps, [2]string{"xt", "urn:btih:" + hexs[:r.Pick(0, 1, 31, 33, 39)]})
			case x < 70:
				ps = append(ps, [2]string{"xt", "urn:btih:" + hexs[:39] + "g"})
			case x < 75:
				ps = append(ps, [2]string{"xt", "urn:btih:" + b32[:31] + magnetPickStr(r, "1", "8", "a", "!", "0")})
			case x < 83:
				ps = append(ps, [2]string{"xt", "urn:btmh:1220" + hexs})
			case x < 88:
				ps = append(ps, [2]string{"xt", magnetPickStr(r, "urn:btih", "URN:BTIH:"+hexs, "", "urn:sha1:"+b32, hexs)})
			case x < 91:
				ps = append(ps, [2]string{"xt", "urn:btih:" + b32[:24] + magnetPickStr(r, "========", "\n\n\n\n\n\n\n\n", "\r\n\r\n\r\n\r\n")})
			default:
				ps = append(ps, [2]string{"xt", "urn:btih:" + hexs})
			}
		}
		for i, nx := 0, r.Pick(0, 1, 1, 1, 1, 2, 2, 3); i < nx; i++ {
			addXt()
		}
		for i, nd := 0, r.Pick(0, 1, 1, 2); i < nd; i++ {
			ps = append(ps, [2]string{"dn", genMagnetStr(r, magnetNamePool)})
		}
		for i, nt := 0, r.Range(0, 7); i < nt; i++ {
			key := "tr"
			if r.Chance(65) {
				key = "tr." + magnetPickStr(r, "0", "1", "2", "3", "01", "+1", "-0", "-1", "x", "", "1.2", "10", "007",
					"99999999999999999999", "9223372036854775807", "9223372036854775808", "1_0", " 1")
			}
			if r.Chance(8) {
				key = magnetPickStr(r, "TR", "trx", "tr.", "Tr.1", "xtr", "tr.1x")
			}
			ps = append(ps, [2]string{key, genMagnetStr(r, magnetTrackerPool)})
		}
		for i, np := 0, r.Pick(0, 0, 1, 2); i < np; i++ {
			ps = append(ps, [2]string{"x.pe", genMagnetStr(r, append(magnetPeerPool, magnetOddPeers...))})
		}
		if r.Chance(20) {
			ps = append(ps, [2]string{magnetPickStr(r, "ws", "xl", "kt", "", "x.PE"), "v"})
		}
		// shuffle a little
		for i := len(ps) - 1; i > 0; i-- {
			if r.Chance(40) {
				j := r.Intn(i + 1)
				ps[i], ps[j] = ps[j], ps[i]
			}
		}
		scheme := "magnet"
		if r.Chance(8) {
			scheme = magnetPickStr(r, "MAGNET", "http", "Magnet", "magnets")
		}
		cases = append(cases, Case{ID: id, Ops: []string{fmt.Sprintf("parse scheme=%s q=%s", scheme, magPairsString(ps))}})
	}
	return cases
}

func magnetPickStr(r *Rng, xs ...string) string { return xs[r.Intn(len(xs))] }
