//go:build verif

package main

import (
	"bytes"
	"fmt"
	"net/http"
	"net/http/httptest"
	"strings"
	"time"

	"github.com/cenkalti/rain/v2/internal/bufferpool"
	"github.com/cenkalti/rain/v2/internal/filesection"
	"github.com/cenkalti/rain/v2/internal/piece"
	"github.com/cenkalti/rain/v2/internal/urldownloader"
)

// Suite wsrange (C01, C10): the real urldownloader.URLDownloader fetches a piece range from an in-process web
// seed while the range is cut short from outside (UpdateEnd, what WebseedStopAt does when a peer or another web
// seed takes over the tail of the range).
//
// op : range pl=<n> files=<len>:<pad>,… begin=<b> end=<e> cut=<k> after=<r>
//        UpdateEnd(k) is called when the r-th result has been received (r=0: before Run)
// obs: res=<index>:<d|->:<ok|bad>,… dup=<0|1> extra=<n> end=<closed|timeout> cutclose=<0|1>
//        (cutclose=1: the consumer closed the downloader at the cut because it had already read past the new end,
//        as PiecePicker.WebseedStopAt does; no Done flag is expected then)
//        one entry per result in arrival order (d = Done flag, ok = the buffer holds the piece's true bytes when
//        it arrives); dup=1 iff the same buffer memory was handed out in two results or was given back to the pool
//        by the downloader although it had been delivered; extra = results that
//        arrived after the one flagged Done. The consumer behaves like the torrent: it closes the downloader
//        when it sees Done.

func init() {
	register(&Suite{Name: "wsrange", Gen: genWsRange, Exec: execWsRange})
}

func genWsRange(r *Rng, n int, tier string) []Case {
	var cases []Case
	for i := 0; i < n; i++ {
		pl := r.Pick(16, 16, 32, 64)
		nf := r.Range(1, 4)
		var parts []string
		total := 0
		for j := 0; j < nf; j++ {
			pad := j > 0 && r.Chance(20)
			ln := r.Pick(pl, 2*pl, 3*pl, pl+pl/2, pl/2, r.Range(1, 5*pl))
			if pad {
				ln = r.Pick(1, pl/2, pl-1)
			}
			parts = append(parts, fmt.Sprintf("%d:%s", ln, b01(pad)))
			total += ln
		}
		np := (total + pl - 1) / pl
		if np < 2 {
			i--
			continue
		}
		b := r.Intn(np - 1)
		e := r.Range(b+1, np)
		cut := r.Range(b+1, e)
		after := r.Range(0, e-b)
		cases = append(cases, Case{ID: fmt.Sprintf("wsrange-%d", i+1), Ops: []string{
			fmt.Sprintf("range pl=%d files=%s begin=%d end=%d cut=%d after=%d", pl, strings.Join(parts, ","), b, e, cut, after)}})
	}
	return cases
}

func execWsRange(ops []string) []string {
	var obs []string
	for _, op := range ops {
		obs = append(obs, wsRangeOne(kv(op)))
	}
	return obs
}

func wsRangeOne(m map[string]string) string {
	pl := atoi(m["pl"])
	type fl struct {
		name string
		ln   int
		pad  bool
		data []byte
	}
	var files []fl
	var content []byte
	for i, f := range commaList(m["files"]) {
		p := strings.Split(f, ":")
		ln := atoi(p[0])
		pad := len(p) > 1 && p[1] == "1"
		d := make([]byte, ln)
		if !pad {
			for j := range d {
				d[j] = byte(17*i + j + 1)
			}
		}
		name := fmt.Sprintf("f%d", i)
		if pad {
			name = fmt.Sprintf(".pad/%d", ln)
		}
		files = append(files, fl{name, ln, pad, d})
		content = append(content, d...)
	}
	served := map[string][]byte{}
	for _, f := range files {
		if !f.pad {
			served[f.name] = f.data
		}
	}
	srv := httptest.NewServer(http.HandlerFunc(func(w http.ResponseWriter, r *http.Request) {
		name := strings.TrimPrefix(r.URL.Path, "/")
		d, ok := served[name]
		if !ok {
			http.NotFound(w, r)
			return
		}
		http.ServeContent(w, r, name, time.Time{}, bytes.NewReader(d))
	}))
	defer srv.Close()
	// pieces with their file sections
	var pieces []piece.Piece
	for off, idx := 0, 0; off < len(content); off, idx = off+pl, idx+1 {
		end := min(off+pl, len(content))
		pc := piece.Piece{Index: uint32(idx), Length: uint32(end - off)}
		pos := 0
		for _, f := range files {
			fs, fe := pos, pos+f.ln
			pos = fe
			s, e := max(fs, off), min(fe, end)
			if s >= e {
				continue
			}
			pc.Data = append(pc.Data, filesection.FileSection{Name: f.name, Offset: int64(s - fs), Length: int64(e - s), Padding: f.pad})
		}
		pieces = append(pieces, pc)
	}
	b, e, cut, after := uint32(atoi(m["begin"])), uint32(atoi(m["end"])), uint32(atoi(m["cut"])), atoi(m["after"])
	multi := len(files) > 1
	url := srv.URL
	if !multi {
		url += "/" + files[0].name // a single-file torrent's web seed URL names the file itself
	}
	d := urldownloader.New(url, b, e, nil)
	if after == 0 {
		d.UpdateEnd(cut)
	}
	pool := bufferpool.New(pl)
	resultC := make(chan *urldownloader.PieceResult)
	go d.Run(http.DefaultClient, pieces, multi, resultC, pool, 5*time.Second)
	var res []string
	seen := map[*byte]bool{}
	dup, extra, nres := 0, 0, 0
	closed := false
	stoppedByCut := false
	endv := "timeout"
	closeC := make(chan struct{})
	timeout := time.After(3 * time.Second)
loop:
	for {
		select {
		case r := <-resultC:
			nres++
			if r.Error != nil {
				res = append(res, "err")
				if !closed {
					closed = true
					d.Close()
					endv = "closed"
					break loop
				}
				continue
			}
			if closed {
				extra++
			}
			v := "bad"
			s := int(r.Index) * pl
			if s < len(content) && bytes.Equal(r.Buffer.Data, content[s:min(s+pl, len(content))]) {
				v = "ok"
			}
			if len(r.Buffer.Data) > 0 {
				if seen[&r.Buffer.Data[0]] {
					dup = 1
				}
				seen[&r.Buffer.Data[0]] = true
			}
			res = append(res, fmt.Sprintf("%d:%s:%s", r.Index, map[bool]string{true: "d", false: "-"}[r.Done], v))
			if nres == after {
				// WebseedStopAt: the end moves; a downloader that is already at or past the new end is closed
				d.UpdateEnd(cut)
				if d.ReadCurrent() >= cut && !closed {
					closed = true
					stoppedByCut = true
					d.Close()
					endv = "closed"
					break loop
				}
			}
			if r.Done && !closed {
				// what the torrent does: the downloader is closed (synchronously, inside the handler of the result)
				// when its last result is taken
				closed = true
				d.Close()
				endv = "closed"
				break loop
			}
		case <-closeC:
			endv = "closed"
			break loop
		case <-timeout:
			break loop
		}
	}
	if !closed {
		go d.Close()
	}
	// Every delivered buffer still belongs to this consumer (none was released here). If the pool hands one of
	// them out again, the downloader has released a buffer it had already given away.
	owned := 0
	if endv == "closed" {
		for i := 0; i < 8; i++ {
			nb := pool.Get(pl)
			if len(nb.Data) > 0 && seen[&nb.Data[0]] {
				owned = 1
			}
		}
	}
	dup |= owned
	return fmt.Sprintf("res=%s dup=%d extra=%d end=%s cutclose=%s", joinOrDash(res), dup, extra, endv, b01(stoppedByCut))
}
