//go:build verif

package main

import (
	"bytes"
	"errors"
	"fmt"
	"sort"
	"strings"
	"time"

	"github.com/cenkalti/rain/v2/internal/btconn"
	"github.com/cenkalti/rain/v2/internal/peerconn/peerwriter"
	"github.com/cenkalti/rain/v2/internal/peerprotocol"
)

// Suite codec (C11): the real PeerWriter writes generated messages of every kind into an in-memory
// connection (bytes compared with the model's `encode`), the concatenated stream is then fed in
// random fragments to the real PeerReader (decoded sequence compared with the model's `run`).
//
// ops                                                       observation
//   send k=<kind> <fields>                                  w=<hex of the one conn.Write> up=<n|->
//   sendpartial i= b= l= seed= wn=<n>                       w=<hex> up=<n|->   (conn.Write accepts only wn bytes, then fails)
//   raw b=<chunks>                                          ok      (bytes spliced into the stream, e.g. keep-alive)
//   read max=<n> frag=<sizes>                               msgs=<m;m;…> end=<eof|oversize|blocksize|ext>
//   hs ext=<hex8> ih=<hex20> id=<hex20>                     w=<hex>
//   hsread b=<hex> frag=<sizes>                             ok:<ext>:<ih>:<id>:<unread> | invalid | short
// kinds: choke unchoke interested notinterested haveall havenone have(i) allowedfast(i) bitfield(d)
//        request/cancel/reject(i,b,l) piece(i,b,l,seed) port(p)
//        exths(eid,m=<hexkey>:<val>,…,v,ip,ms,rq) extmd(eid,t,piece,ts,d) extpex(eid,a,d)

func init() {
	register(&Suite{Name: "codec", Gen: genCodec, Exec: execCodec})
}

// patternAt is the virtual piece content served by the io.ReaderAt handed to SendPiece.
type patternAt struct{ seed int }

func (p patternAt) ReadAt(b []byte, off int64) (int, error) {
	for j := range b {
		b[j] = byte((off+int64(j))*31 + int64(p.seed))
	}
	return len(b), nil
}

// wconn is the net.Conn given to the real PeerWriter: every Write is handed to the executor.
type wconn struct {
	rconn
	writes  chan []byte
	quit    chan struct{}
	closed  chan struct{}
	partial int // >=0: accept only this many bytes of the next write, then fail
}

func (c *wconn) Write(b []byte) (int, error) {
	cp := append([]byte(nil), b...)
	n := len(b)
	var err error
	if c.partial >= 0 {
		if c.partial < n {
			n = c.partial
		}
		err = errors.New("verif: short write")
	}
	select {
	case c.writes <- cp:
	case <-c.quit:
	}
	return n, err
}

func (c *wconn) Close() error {
	select {
	case <-c.closed:
	default:
		close(c.closed)
	}
	return nil
}

func buildMessage(m map[string]string) (msg peerprotocol.Message, req *peerprotocol.RequestMessage, seed int) {
	u32 := func(k string) uint32 { return uint32(atou(m[k])) }
	rm := peerprotocol.RequestMessage{Index: u32("i"), Begin: u32("b"), Length: u32("l")}
	switch m["k"] {
	case "choke":
		return peerprotocol.ChokeMessage{}, nil, 0
	case "unchoke":
		return peerprotocol.UnchokeMessage{}, nil, 0
	case "interested":
		return peerprotocol.InterestedMessage{}, nil, 0
	case "notinterested":
		return peerprotocol.NotInterestedMessage{}, nil, 0
	case "haveall":
		return peerprotocol.HaveAllMessage{}, nil, 0
	case "havenone":
		return peerprotocol.HaveNoneMessage{}, nil, 0
	case "have":
		return peerprotocol.HaveMessage{Index: u32("i")}, nil, 0
	case "allowedfast":
		return peerprotocol.AllowedFastMessage{HaveMessage: peerprotocol.HaveMessage{Index: u32("i")}}, nil, 0
	case "bitfield":
		return &peerprotocol.BitfieldMessage{Data: unhex(m["d"])}, nil, 0
	case "request":
		return rm, nil, 0
	case "cancel":
		return peerprotocol.CancelMessage{RequestMessage: rm}, nil, 0
	case "reject":
		return peerprotocol.RejectMessage{RequestMessage: rm}, nil, 0
	case "port":
		return peerprotocol.PortMessage{Port: uint16(atou(m["p"]))}, nil, 0
	case "piece":
		return nil, &rm, atoi(m["seed"])
	case "exths":
		hm := peerprotocol.ExtensionHandshakeMessage{
			M: map[string]uint8{}, V: string(unhex(m["v"])), YourIP: string(unhex(m["ip"])),
			MetadataSize: int(atoi64(m["ms"])), RequestQueue: int(atoi64(m["rq"])),
		}
		for _, t := range commaList(m["m"]) {
			kvp := strings.SplitN(t, ":", 2)
			if len(kvp) == 2 {
				hm.M[string(unhex(kvp[0]))] = uint8(atoi(kvp[1]))
			}
		}
		return peerprotocol.ExtensionMessage{ExtendedMessageID: uint8(atoi(m["eid"])), Payload: hm}, nil, 0
	case "extmd":
		mm := peerprotocol.ExtensionMetadataMessage{Type: int(atoi64(m["t"])), Piece: uint32(atou(m["piece"])),
			TotalSize: int(atoi64(m["ts"])), Data: unhex(m["d"])}
		return peerprotocol.ExtensionMessage{ExtendedMessageID: uint8(atoi(m["eid"])), Payload: mm}, nil, 0
	case "extpex":
		pm := peerprotocol.ExtensionPEXMessage{Added: string(unhex(m["a"])), Dropped: string(unhex(m["d"]))}
		return peerprotocol.ExtensionMessage{ExtendedMessageID: uint8(atoi(m["eid"])), Payload: pm}, nil, 0
	}
	return nil, nil, 0
}

func execCodec(ops []string) []string {
	obs := make([]string, len(ops))
	conn := &wconn{writes: make(chan []byte), quit: make(chan struct{}), closed: make(chan struct{}), partial: -1}
	lg := &errLogger{}
	pw := peerwriter.New(conn, lg, 100, true, nil)
	go pw.Run()
	defer func() {
		close(conn.quit)
		pw.Stop()
		<-pw.Done()
		select {
		case <-conn.closed:
		case <-time.After(5 * time.Second):
		}
	}()

	var stream []byte
	dead := false
	prevSend := -1 // index of the op whose BlockUploaded event may still arrive
	ups := map[int][]uint32{}
	// awaitWrite waits for the next conn.Write; BlockUploaded events seen meanwhile belong to prevSend.
	awaitWrite := func() ([]byte, bool) {
		t := time.After(10 * time.Second)
		for {
			select {
			case b := <-conn.writes:
				return b, true
			case ev := <-pw.Messages():
				if bu, ok := ev.(peerwriter.BlockUploaded); ok {
					ups[prevSend] = append(ups[prevSend], bu.Length)
				}
			case <-conn.closed:
				return nil, false
			case <-t:
				return nil, false
			}
		}
	}
	// drain waits until the writer can have no event pending for prevSend: either it wrote the
	// sentinel that follows, or it closed the connection.
	flush := func() {
		if dead || prevSend < 0 {
			return
		}
		pw.SendMessage(peerprotocol.NotInterestedMessage{})
		awaitWrite()
	}
	sendObs := map[int]string{}
	for i, op := range ops {
		m := kv(op)
		switch m["_"] {
		case "send", "sendpartial":
			if dead {
				obs[i] = "dead"
				continue
			}
			if m["_"] == "sendpartial" {
				m["k"] = "piece"
				conn.partial = atoi(m["wn"])
			}
			msg, req, seed := buildMessage(m)
			if msg == nil && req == nil {
				obs[i] = "bad-op"
				continue
			}
			if req != nil {
				pw.SendPiece(*req, patternAt{seed})
			} else {
				pw.SendMessage(msg)
			}
			b, ok := awaitWrite()
			prevSend = i
			if !ok {
				sendObs[i] = "w=none"
				dead = true
				continue
			}
			sendObs[i] = "w=" + hexs(b)
			if conn.partial >= 0 {
				// the writer stops after a failed write: wait for it to close the connection
				t := time.After(10 * time.Second)
			wait:
				for {
					select {
					case ev := <-pw.Messages():
						if bu, ok := ev.(peerwriter.BlockUploaded); ok {
							ups[i] = append(ups[i], bu.Length)
						}
					case <-conn.closed:
						break wait
					case <-t:
						break wait
					}
				}
				dead = true
			} else {
				stream = append(stream, b...)
			}
		case "raw":
			stream = append(stream, parseChunks(m["b"])...)
			obs[i] = "ok"
		case "read":
			flush()
			prevSend = -1
			r := runReader(stream, atoi(m["max"]), parseFrags(m["frag"]))
			obs[i] = "msgs=" + msgsString(r.msgs) + " end=" + r.end
		case "hs":
			var ext [8]byte
			var ih, id [20]byte
			copy(ext[:], unhex(m["ext"]))
			copy(ih[:], unhex(m["ih"]))
			copy(id[:], unhex(m["id"]))
			var buf bytes.Buffer
			if err := btconn.VerifWriteHandshake(&buf, ih, id, ext); err != nil {
				obs[i] = "err"
			} else {
				obs[i] = "w=" + hexs(buf.Bytes())
			}
		case "hsread":
			fr := &fragReader{data: unhex(m["b"]), frags: parseFrags(m["frag"])}
			ext, ih, id, class := btconn.VerifReadHandshake(fr)
			if class == "ok" {
				obs[i] = fmt.Sprintf("ok:%s:%s:%s:%d", hexs(ext[:]), hexs(ih[:]), hexs(id[:]), len(fr.data)-fr.pos)
			} else {
				obs[i] = class
			}
		default:
			obs[i] = "bad-op"
		}
	}
	flush()
	for i, s := range sendObs {
		up := "-"
		if us := ups[i]; len(us) > 0 {
			var parts []string
			for _, u := range us {
				parts = append(parts, fmt.Sprint(u))
			}
			up = strings.Join(parts, "+")
		}
		obs[i] = s + " up=" + up
	}
	return obs
}

// ---------------------------------------------------------------------------------------------
// generator
// ---------------------------------------------------------------------------------------------

func genHex(r *Rng, n int) string { return hexs(r.Bytes(n)) }

func genSendOp(r *Rng) string {
	edge := func() uint32 { return r.U32Edge(uint32(r.Pick(0, 1, 16384, 1000, 1<<20))) }
	switch r.Intn(22) {
	case 0:
		return "send k=choke"
	case 1:
		return "send k=unchoke"
	case 2:
		return "send k=interested"
	case 3:
		return "send k=notinterested"
	case 4:
		return "send k=haveall"
	case 5:
		return "send k=havenone"
	case 6:
		return fmt.Sprintf("send k=have i=%d", edge())
	case 7:
		return fmt.Sprintf("send k=allowedfast i=%d", edge())
	case 8, 9:
		n := r.Pick(0, 1, 2, 7, 8, 9, 31, 32, 100, 511, 512, 513, 1000, 4095, 4096, r.Range(0, 4096))
		return "send k=bitfield d=" + genHex(r, n)
	case 10:
		return fmt.Sprintf("send k=request i=%d b=%d l=%d", edge(), edge(), edge())
	case 11:
		return fmt.Sprintf("send k=cancel i=%d b=%d l=%d", edge(), edge(), edge())
	case 12:
		return fmt.Sprintf("send k=reject i=%d b=%d l=%d", edge(), edge(), edge())
	case 13, 14:
		l := r.Pick(0, 1, 2, 13, 100, 511, 512, 513, 16383, 16384, r.Range(0, 16384), r.Range(0, 64))
		// a small (i,b,l) space makes repeated requests (answered with reject) likely
		if r.Chance(30) {
			return fmt.Sprintf("send k=piece i=%d b=%d l=%d seed=%d", r.Intn(2), r.Intn(2)*16384, r.Pick(0, 1, 16384), r.Intn(256))
		}
		return fmt.Sprintf("send k=piece i=%d b=%d l=%d seed=%d", edge(), edge(), l, r.Intn(256))
	case 15:
		return fmt.Sprintf("send k=port p=%d", r.Pick(0, 1, 255, 256, 6881, 65535, r.Intn(65536)))
	case 16, 17:
		nk := r.Pick(0, 1, 2, 2, 3, 10, 40, r.Range(0, 60))
		keys := map[string]bool{}
		var parts []string
		for j := 0; j < nk; j++ {
			var k []byte
			switch r.Intn(6) {
			case 0:
				k = []byte("ut_metadata")
			case 1:
				k = []byte("ut_pex")
			case 2:
				k = r.Bytes(r.Range(0, 3))
			default:
				k = r.Bytes(r.Range(1, 20))
			}
			if keys[string(k)] {
				continue
			}
			keys[string(k)] = true
			parts = append(parts, fmt.Sprintf("%s:%d", hexs(k), r.Pick(0, 1, 2, 3, 9, 10, 99, 100, 255, r.Intn(256))))
		}
		sort.Strings(parts) // op text canonical; the Go map forgets the order anyway
		ms := r.Pick(0, 0, 1, 9, 10, 16384, 1<<31-1, 1<<24, 31337, 99, 100, -1, -1<<31, r.Intn(1<<30))
		rq := r.Pick(0, 1, 250, 250, 255, 256, 9, 10, 1<<31-1, -1, r.Intn(100000))
		ip := r.Pick(0, 0, 4, 16, r.Range(0, 20))
		eid := r.Pick(0, 0, 0, 0, 0, 0, 0, 0, 0, 0, 0, 0, 1, 2, 3, 255)
		return fmt.Sprintf("send k=exths eid=%d m=%s v=%s ip=%s ms=%d rq=%d", eid, joinOrDash(parts), genHex(r, r.Pick(0, 1, 9, 10, 11, 30, r.Range(0, 120))), genHex(r, ip), ms, rq)
	case 18, 19:
		t := r.Pick(0, 1, 2, 3, -1, 1<<31, r.Intn(1000))
		ts := r.Pick(0, 0, 1, 16384, 16385, 1<<24, -1, r.Intn(1<<30))
		n := r.Pick(0, 0, 1, 100, 16383, 16384, r.Range(0, 16384), r.Range(0, 64))
		eid := r.Pick(1, 1, 1, 1, 1, 1, 1, 1, 1, 1, 1, 1, 0, 2, 7)
		return fmt.Sprintf("send k=extmd eid=%d t=%d piece=%d ts=%d d=%s", eid, t, edge(), ts, genHex(r, n))
	default:
		a := 6 * r.Pick(0, 1, 2, 50, 100, r.Range(0, 100))
		d := 6 * r.Pick(0, 0, 1, 2, 50, r.Range(0, 100))
		if r.Chance(20) {
			a += r.Range(1, 5)
		}
		eid := r.Pick(2, 2, 2, 2, 2, 2, 2, 2, 2, 2, 2, 2, 0, 1, 200)
		return fmt.Sprintf("send k=extpex eid=%d a=%s d=%s", eid, genHex(r, a), genHex(r, d))
	}
}

func genFrags(r *Rng) string {
	switch r.Intn(6) {
	case 0:
		return "1"
	case 1:
		return "-"
	case 2:
		return fmt.Sprint(r.Pick(2, 3, 4, 5, 13, 16, 17, 18))
	default:
		n := r.Range(1, 8)
		var parts []string
		for j := 0; j < n; j++ {
			parts = append(parts, fmt.Sprint(r.Pick(1, 1, 2, 3, 4, 5, 12, 13, 16, 17, 18, 100, 4096, 16384, 16397, r.Range(1, 70000))))
		}
		return strings.Join(parts, ",")
	}
}

func genCodec(r *Rng, n int, tier string) []Case {
	var cases []Case
	id := 0
	add := func(ops []string) {
		id++
		cases = append(cases, Case{ID: fmt.Sprintf("codec-%d", id), Ops: ops})
	}
	// one case per kind with fixed small values (always present, readable samples)
	for _, op := range []string{
		"send k=choke", "send k=unchoke", "send k=interested", "send k=notinterested", "send k=haveall", "send k=havenone",
		"send k=have i=1", "send k=allowedfast i=4294967295", "send k=bitfield d=ff00aa", "send k=request i=1 b=16384 l=16384",
		"send k=cancel i=1 b=2 l=3", "send k=reject i=4294967295 b=0 l=4294967295", "send k=piece i=3 b=16384 l=5 seed=7", "send k=port p=6881",
		"send k=exths eid=0 m=75745f6d65746164617461:1,75745f706578:2 v=5261696e ip=7f000001 ms=31337 rq=250",
		"send k=extmd eid=1 t=1 piece=2 ts=40000 d=00112233", "send k=extpex eid=2 a=7f0000011ae1 d=-",
	} {
		add([]string{op, "read max=1048576 frag=1", "read max=1048576 frag=-"})
	}
	for i := 0; i < n; i++ {
		switch {
		case i%10 == 9:
			// handshake
			ext, ih, pid := r.Bytes(8), r.Bytes(20), r.Bytes(20)
			var buf bytes.Buffer
			buf.WriteByte(19)
			buf.WriteString("BitTorrent protocol")
			buf.Write(ext)
			buf.Write(ih)
			buf.Write(pid)
			b := buf.Bytes()
			switch r.Intn(5) {
			case 0:
				b = b[:r.Intn(len(b))]
			case 1:
				b[r.Intn(20)] ^= byte(1 << uint(r.Intn(8)))
			case 2:
				b = append(b, r.Bytes(r.Range(1, 30))...)
			}
			add([]string{
				fmt.Sprintf("hs ext=%s ih=%s id=%s", hexs(ext), hexs(ih), hexs(pid)),
				fmt.Sprintf("hsread b=%s frag=%s", hexs(b), genFrags(r)),
			})
		case i%10 == 8:
			// upload counter under a short write
			l := r.Pick(0, 1, 5, 100, 16384, r.Range(0, 16384))
			wn := r.Pick(0, 1, 12, 13, 14, 13+l-1, 13+l, r.Range(0, 13+l))
			if wn < 0 {
				wn = 0
			}
			var ops []string
			for j := r.Intn(3); j > 0; j-- {
				ops = append(ops, genSendOp(r))
			}
			ops = append(ops, fmt.Sprintf("sendpartial i=%d b=%d l=%d seed=%d wn=%d", r.U32Edge(5), r.U32Edge(16384), l, r.Intn(256), wn))
			if r.Bool() {
				ops = append(ops, genSendOp(r))
			}
			add(ops)
		default:
			k := r.Range(1, 12)
			var ops []string
			for j := 0; j < k; j++ {
				if r.Chance(8) {
					switch r.Intn(3) {
					case 0:
						ops = append(ops, "raw b=00000000") // keep-alive
					case 1:
						ops = append(ops, fmt.Sprintf("raw b=00000001%02x", r.Pick(10, 11, 12, 13, 18, 19, 21, 255))) // unknown id, empty body
					default:
						nb := r.Range(0, 40)
						ops = append(ops, fmt.Sprintf("raw b=%08x%02x%s", nb+1, r.Pick(10, 13, 21, 99), strings.TrimPrefix(genHex(r, nb), "-")))
					}
				} else {
					ops = append(ops, genSendOp(r))
				}
			}
			max := r.Pick(1<<20, 1<<20, 1<<20, 1<<20, 1<<20, 1<<20, 1<<20, 1<<16, 16393, 16393, 16392, 16384, 4096, 1000, 100, 17, 12, 4, 0)
			ops = append(ops, fmt.Sprintf("read max=%d frag=%s", max, genFrags(r)))
			if r.Chance(30) {
				ops = append(ops, fmt.Sprintf("read max=%d frag=%s", 1<<20, genFrags(r)))
			}
			add(ops)
		}
	}
	return cases
}
