//go:build verif

package main

import (
	"errors"
	"fmt"
	"io"
	"strings"

	"github.com/cenkalti/rain/v2/internal/allocator"
	"github.com/cenkalti/rain/v2/internal/metainfo"
	"github.com/cenkalti/rain/v2/internal/piece"
	"github.com/cenkalti/rain/v2/internal/storage"
	"github.com/cenkalti/rain/v2/internal/urldownloader"
)

// Suite geometry (C02): piece.NewPieces, filesection.Piece.ReadAt / Write on in-memory files
// (padding files are the real storage.PaddingFile), urldownloader.createJobs.
//
// A case is a little session: the first op builds the pieces, later ops work on them.
//   newpieces pl=<n> np=<n> len=<L> files=<len>:<pad>:<name>,…   obs: ok <piece>;<piece>…  | panic
//        piece = <length>|<fileIndex>:<offset>:<length>:<pad>:<name>+…      (name "" is printed 0)
//   write piece=<i> buf=<hex>        obs: ok|err n=<n> files=<hex>,<hex>,P,… | panic files=… | nopiece
//   readat piece=<i> off=<o> n=<n>   obs: ok <hex> | short <k> <hex> | panic | nopiece
//   readall piece=<i>                obs: results of readat for every 0<n, off+n<=piece length, `;`-joined
//   jobs begin=<b> end=<e>           obs: <name>:<rangeBegin>:<length>:<pad>,… | - | panic
// Data file f starts with byte (31 f + 7 o + 3) mod 256 at offset o.

func init() {
	register(&Suite{Name: "geometry", Gen: genGeometry, Exec: execGeometry})
}

type geoMem struct {
	idx  int
	data []byte
}

func (m *geoMem) ReadAt(p []byte, off int64) (int, error) {
	if off < 0 {
		return 0, errors.New("negative offset")
	}
	if off >= int64(len(m.data)) {
		return 0, io.EOF
	}
	n := copy(p, m.data[off:])
	if n < len(p) {
		return n, io.EOF
	}
	return n, nil
}

func (m *geoMem) WriteAt(p []byte, off int64) (int, error) {
	if off < 0 || off+int64(len(p)) > int64(len(m.data)) {
		return 0, errors.New("write outside file")
	}
	copy(m.data[off:], p)
	return len(p), nil
}

func (m *geoMem) Close() error { return nil }

// geoPad is the real padding file plus the index of the file it stands for.
type geoPad struct {
	storage.PaddingFile
	idx int
}

type geoState struct {
	pieces []piece.Piece
	files  []allocator.File
}

func geoInitByte(f, o int) byte { return byte((31*f + 7*o + 3) % 256) }

func geoName(s string) string {
	if s == "0" {
		return ""
	}
	return s
}

func geoShowName(s string) string {
	if s == "" {
		return "0"
	}
	return s
}

func geoFileIndex(f interface{}) int {
	switch v := f.(type) {
	case *geoMem:
		return v.idx
	case geoPad:
		return v.idx
	}
	return -1
}

func geoTry(f func() string) (res string) {
	defer func() {
		if r := recover(); r != nil {
			res = "panic"
		}
	}()
	return f()
}

func geoShowPieces(ps []piece.Piece) string {
	var parts []string
	for _, p := range ps {
		var secs []string
		for _, s := range p.Data {
			secs = append(secs, fmt.Sprintf("%d:%d:%d:%s:%s", geoFileIndex(s.File), s.Offset, s.Length, b01(s.Padding), geoShowName(s.Name)))
		}
		sj := "-"
		if len(secs) > 0 {
			sj = strings.Join(secs, "+")
		}
		parts = append(parts, fmt.Sprintf("%d|%s", p.Length, sj))
	}
	if len(parts) == 0 {
		return "ok -"
	}
	return "ok " + strings.Join(parts, ";")
}

func (st *geoState) showFiles() string {
	var parts []string
	for _, f := range st.files {
		if m, ok := f.Storage.(*geoMem); ok {
			if len(m.data) == 0 {
				parts = append(parts, "_") // empty data file (distinct from "-" = no files)
			} else {
				parts = append(parts, hexs(m.data))
			}
		} else {
			parts = append(parts, "P")
		}
	}
	return joinOrDash(parts)
}

func geoReadAt(p piece.Piece, off int64, n int) string {
	return geoTry(func() string {
		buf := make([]byte, n)
		k, err := p.Data.ReadAt(buf, off)
		if err != nil {
			return fmt.Sprintf("short %d %s", k, hexs(buf[:k]))
		}
		return "ok " + hexs(buf[:k])
	})
}

func execGeometry(ops []string) []string {
	var obs []string
	var st *geoState
	for _, op := range ops {
		m := kv(op)
		switch m["_"] {
		case "newpieces":
			st = nil
			var mfiles []metainfo.File
			var afiles []allocator.File
			for i, t := range commaList(m["files"]) {
				parts := strings.Split(t, ":")
				if len(parts) != 3 {
					continue
				}
				ln := atoi64(parts[0])
				pad := parts[1] == "1"
				name := geoName(parts[2])
				mfiles = append(mfiles, metainfo.File{Length: ln, Path: name, Padding: pad})
				var sf storage.File
				if pad {
					sf = geoPad{PaddingFile: storage.NewPaddingFile(ln).(storage.PaddingFile), idx: i}
				} else {
					d := make([]byte, ln)
					for o := range d {
						d[o] = geoInitByte(i, o)
					}
					sf = &geoMem{idx: i, data: d}
				}
				afiles = append(afiles, allocator.File{Storage: sf, Name: name, Padding: pad})
			}
			info := metainfo.VerifNewInfo(uint32(atou(m["pl"])), uint32(atou(m["np"])), atoi64(m["len"]), mfiles)
			var ps []piece.Piece
			res := geoTry(func() string {
				ps = piece.NewPieces(info, afiles)
				return geoShowPieces(ps)
			})
			if res != "panic" {
				st = &geoState{pieces: ps, files: afiles}
			}
			obs = append(obs, res)
		case "write":
			i := atoi(m["piece"])
			if st == nil || i < 0 || i >= len(st.pieces) {
				obs = append(obs, "nopiece")
				continue
			}
			src := unhex(m["buf"])
			buf := make([]byte, len(src), len(src)) // cap == len: slicing beyond len panics like beyond cap
			copy(buf, src)
			res := geoTry(func() string {
				n, err := st.pieces[i].Data.Write(buf)
				tag := "ok"
				if err != nil {
					tag = "err"
				}
				return fmt.Sprintf("%s n=%d files=%s", tag, n, st.showFiles())
			})
			if res == "panic" {
				// sections written before the panic stay written
				res = "panic files=" + st.showFiles()
			}
			obs = append(obs, res)
		case "readat":
			i := atoi(m["piece"])
			if st == nil || i < 0 || i >= len(st.pieces) {
				obs = append(obs, "nopiece")
				continue
			}
			obs = append(obs, geoReadAt(st.pieces[i], atoi64(m["off"]), atoi(m["n"])))
		case "readall":
			i := atoi(m["piece"])
			if st == nil || i < 0 || i >= len(st.pieces) {
				obs = append(obs, "nopiece")
				continue
			}
			p := st.pieces[i]
			var parts []string
			for off := 0; off < int(p.Length); off++ {
				for n := 1; off+n <= int(p.Length); n++ {
					parts = append(parts, strings.ReplaceAll(geoReadAt(p, int64(off), n), " ", ":"))
				}
			}
			if len(parts) == 0 {
				obs = append(obs, "-")
			} else {
				obs = append(obs, strings.Join(parts, ";"))
			}
		case "jobs":
			if st == nil {
				obs = append(obs, "nopiece")
				continue
			}
			obs = append(obs, geoTry(func() string {
				jobs := urldownloader.VerifCreateJobs(st.pieces, uint32(atou(m["begin"])), uint32(atou(m["end"])))
				var parts []string
				for _, j := range jobs {
					parts = append(parts, fmt.Sprintf("%s:%d:%d:%s", geoShowName(j.Filename), j.RangeBegin, j.Length, b01(j.Padding)))
				}
				return joinOrDash(parts)
			}))
		default:
			obs = append(obs, "unknown-op")
		}
	}
	return obs
}

// ---- generation ----

type geoLayout struct {
	lens  []int
	pads  []bool
	names []int
	pl    int
}

func (l geoLayout) total() int {
	t := 0
	for _, x := range l.lens {
		t += x
	}
	return t
}

func (l geoLayout) np() int { return (l.total() + l.pl - 1) / l.pl }

func (l geoLayout) filesString() string {
	var parts []string
	for i := range l.lens {
		parts = append(parts, fmt.Sprintf("%d:%s:%d", l.lens[i], b01(l.pads[i]), l.names[i]))
	}
	return joinOrDash(parts)
}

// pieceLens returns the piece lengths of a well-formed layout.
func (l geoLayout) pieceLens() []int {
	var out []int
	t := l.total()
	for t > 0 {
		n := l.pl
		if t < n {
			n = t
		}
		out = append(out, n)
		t -= n
	}
	return out
}

// stdNames: data files get unique names 1,2,…; padding files are called 100+length, the way
// BEP 47 recommends ".pad/<length>", so equal padding names do occur.
func geoStdNames(lens []int, pads []bool) []int {
	names := make([]int, len(lens))
	for i := range lens {
		if pads[i] {
			names[i] = 100 + lens[i]
		} else {
			names[i] = i + 1
		}
	}
	return names
}

// geoSharedNames: every padding file takes the name of a neighbouring data file (NewInfo exempts
// padding files from the duplicate-path check, so this is an accepted metainfo).
func geoSharedNames(lens []int, pads []bool) []int {
	names := geoStdNames(lens, pads)
	for i := range names {
		if !pads[i] {
			continue
		}
		if i > 0 && !pads[i-1] {
			names[i] = names[i-1]
		} else if i+1 < len(names) && !pads[i+1] {
			names[i] = names[i+1]
		}
	}
	return names
}

func geoBuf(pieceIdx, n int, r *Rng) string {
	b := make([]byte, n)
	for k := range b {
		if r != nil {
			b[k] = byte(1 + r.Intn(255))
		} else {
			b[k] = byte(1 + (17*pieceIdx+5*k)%255)
		}
	}
	return hexs(b)
}

// followUps appends write / readall / jobs ops for a well-formed layout.
func geoFollowUps(l geoLayout, r *Rng, maxPieces int) []string {
	var ops []string
	pls := l.pieceLens()
	np := len(pls)
	// jobs first (they do not depend on contents)
	ops = append(ops, fmt.Sprintf("jobs begin=0 end=%d", np))
	if np > 1 {
		b := 1 + (l.total() % (np - 1 + 1))
		if b >= np {
			b = np - 1
		}
		ops = append(ops, fmt.Sprintf("jobs begin=%d end=%d", b, np))
		ops = append(ops, fmt.Sprintf("jobs begin=%d end=%d", b/2, b+1))
	}
	// read before anything is written, then write and read back
	step := 1
	if np > maxPieces {
		step = (np + maxPieces - 1) / maxPieces
	}
	for i := 0; i < np; i += step {
		if pls[i] <= 8 {
			ops = append(ops, fmt.Sprintf("readall piece=%d", i))
		}
	}
	for i := 0; i < np; i += step {
		ops = append(ops, fmt.Sprintf("write piece=%d buf=%s", i, geoBuf(i, pls[i], r)))
		if pls[i] <= 8 {
			ops = append(ops, fmt.Sprintf("readall piece=%d", i))
		} else {
			for k := 0; k < 6; k++ {
				off, n := 0, pls[i]
				if r != nil {
					off = r.Intn(pls[i])
					n = 1 + r.Intn(min(pls[i]-off, 48))
				}
				ops = append(ops, fmt.Sprintf("readat piece=%d off=%d n=%d", i, off, n))
			}
		}
	}
	return ops
}

func genGeometry(r *Rng, n int, tier string) []Case {
	var cases []Case
	id := 0
	add := func(ops []string) {
		id++
		cases = append(cases, Case{ID: fmt.Sprintf("geometry-%d", id), Ops: ops})
	}
	// Exhaustive small space: k files, lengths 0..maxLen, all padding flags, piece length 1..4.
	type space struct{ maxFiles, maxLen int }
	spaces := []space{{3, 6}, {4, 3}}
	if tier == "thorough" {
		spaces = []space{{4, 6}}
	}
	seen := map[string]bool{}
	for _, sp := range spaces {
		for k := 1; k <= sp.maxFiles; k++ {
			total := 1
			for i := 0; i < k; i++ {
				total *= (sp.maxLen + 1) * 2
			}
			for code := 0; code < total; code++ {
				c := code
				lens := make([]int, k)
				pads := make([]bool, k)
				for i := 0; i < k; i++ {
					lens[i] = c % (sp.maxLen + 1)
					c /= sp.maxLen + 1
					pads[i] = c%2 == 1
					c /= 2
				}
				for pl := 1; pl <= 4; pl++ {
					l := geoLayout{lens: lens, pads: pads, names: geoStdNames(lens, pads), pl: pl}
					if l.total() == 0 {
						continue
					}
					first := fmt.Sprintf("newpieces pl=%d np=%d len=%d files=%s", pl, l.np(), l.total(), l.filesString())
					if seen[first] {
						continue
					}
					seen[first] = true
					add(append([]string{first}, geoFollowUps(l, nil, 6)...))
					// same layout, padding files named like a neighbouring data file: only the job list can differ
					shared := geoSharedNames(lens, pads)
					if k <= 3 && fmt.Sprint(shared) != fmt.Sprint(l.names) {
						l2 := geoLayout{lens: lens, pads: pads, names: shared, pl: pl}
						np := l2.np()
						ops := []string{fmt.Sprintf("newpieces pl=%d np=%d len=%d files=%s", pl, np, l2.total(), l2.filesString()),
							fmt.Sprintf("jobs begin=0 end=%d", np)}
						if np > 1 {
							ops = append(ops, fmt.Sprintf("jobs begin=1 end=%d", np), fmt.Sprintf("jobs begin=0 end=%d", np-1))
						}
						add(ops)
					}
				}
			}
		}
	}
	// Generated layouts.
	for i := 0; i < n; i++ {
		pl := r.Pick(1, 2, 3, 4, 5, 7, 8, 8, 16, 16, 64, 100, 16384, 32768)
		k := r.Range(1, 8)
		lens := make([]int, k)
		pads := make([]bool, k)
		for j := range lens {
			m := r.Range(0, 3)
			lens[j] = r.Pick(0, 0, 1, pl-1, pl, pl+1, m*pl, m*pl+1, 2*pl-1, r.Range(0, 3*pl))
			if lens[j] < 0 {
				lens[j] = 0
			}
			pads[j] = r.Chance(30)
		}
		l := geoLayout{lens: lens, pads: pads, names: geoStdNames(lens, pads), pl: pl}
		if r.Chance(25) {
			l.names = geoSharedNames(lens, pads)
		}
		if r.Chance(70) {
			// well formed
			if l.total() == 0 {
				l.lens[r.Intn(k)] = r.Range(1, 2*pl)
				l.names = geoStdNames(l.lens, l.pads)
			}
			if r.Chance(10) {
				// align: insert padding so that the next file starts on a piece boundary (BEP 47)
				var nl []int
				var np []bool
				pos := 0
				for j := range l.lens {
					nl = append(nl, l.lens[j])
					np = append(np, false)
					pos += l.lens[j]
					if pos%pl != 0 && j+1 < len(l.lens) {
						p := pl - pos%pl
						nl = append(nl, p)
						np = append(np, true)
						pos += p
					}
				}
				l.lens, l.pads, l.names = nl, np, geoStdNames(nl, np)
			}
			first := fmt.Sprintf("newpieces pl=%d np=%d len=%d files=%s", pl, l.np(), l.total(), l.filesString())
			if pl >= 1000 {
				ops := []string{first, fmt.Sprintf("jobs begin=0 end=%d", l.np())}
				pls := l.pieceLens()
				for q := 0; q < 4; q++ {
					pi := r.Intn(len(pls))
					off := r.Pick(0, 1, pls[pi]-1, r.Intn(pls[pi]))
					nn := 1 + r.Intn(min(pls[pi]-off, 40))
					ops = append(ops, fmt.Sprintf("readat piece=%d off=%d n=%d", pi, off, nn))
				}
				if len(pls) > 1 {
					b := r.Intn(len(pls))
					e := r.Range(b, len(pls))
					ops = append(ops, fmt.Sprintf("jobs begin=%d end=%d", b, e))
				}
				add(ops)
			} else {
				add(append([]string{first}, geoFollowUps(l, r, 4)...))
			}
			continue
		}
		// Malformed stream: what NewInfo would reject, out-of-range operations.
		np, total := l.np(), l.total()
		switch r.Intn(6) {
		case 0:
			np += r.Pick(-1, 1, 2)
			if np < 0 {
				np = 0
			}
		case 1:
			total += r.Pick(-1, 1, pl, -pl)
			if total < 0 {
				total = 0
			}
		case 2:
			l.lens, l.pads, l.names = nil, nil, nil
		case 3:
			l.names[r.Intn(len(l.names))] = 0
		case 4:
			np = 0
		}
		if np > 64 {
			np = 64
		}
		ops := []string{fmt.Sprintf("newpieces pl=%d np=%d len=%d files=%s", pl, np, total, l.filesString())}
		if pl < 1000 {
			for q := 0; q < 5; q++ {
				pi := r.Range(0, np)
				switch r.Intn(4) {
				case 0:
					ops = append(ops, fmt.Sprintf("readat piece=%d off=%d n=%d", pi, r.Range(0, pl+2), r.Range(0, pl+2)))
				case 1:
					ops = append(ops, fmt.Sprintf("write piece=%d buf=%s", pi, geoBuf(pi, r.Range(0, pl+2), r)))
				case 2:
					ops = append(ops, fmt.Sprintf("jobs begin=%d end=%d", r.Range(0, np+1), r.Range(0, np+1)))
				case 3:
					ops = append(ops, fmt.Sprintf("readall piece=%d", pi))
				}
			}
		}
		add(ops)
	}
	return cases
}
