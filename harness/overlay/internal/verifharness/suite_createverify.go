//go:build verif

package main

import (
	"crypto/sha1"
	"fmt"
	"os"
	"path/filepath"
	"sort"
	"strings"

	"github.com/cenkalti/rain/v2/internal/allocator"
	"github.com/cenkalti/rain/v2/internal/logger"
	"github.com/cenkalti/rain/v2/internal/metainfo"
	"github.com/cenkalti/rain/v2/internal/piece"
	"github.com/cenkalti/rain/v2/internal/storage/filestorage"
	"github.com/cenkalti/rain/v2/internal/verifier"
)

// Suite create-verify (C02, thorough tier): a real directory tree → metainfo.NewInfoBytes →
// metainfo.NewInfo (as Session.AddTorrent parses it: utf8 = pad = true) → allocator on a
// filestorage rooted at the tree's parent → piece.NewPieces → verifier.Run.
//
//   createverify pl=<bytes> mode=dir|single files=<relpath>:<size>:<seed>,…
//   obs: ok np=<pieces> set=<bits set> files=<n> length=<total> hashes=<sha1 of the piece table>
//        | create-error | parse-error | alloc-error | verify-error
// File content: byte k of a file with seed s is 1 + (s*131 + k*7 + k/251) mod 255 (never zero).
// The harness computes the expected piece table itself (independent SHA-1 over the
// concatenation in walk order) and reports it as `want=`; the driver compares.

func init() {
	register(&Suite{Name: "create-verify", Gen: genCreateVerify, Exec: execCreateVerify})
	logger.Disable()
}

func cvByte(seed, k int) byte { return byte(1 + (seed*131+k*7+k/251)%255) }

type cvFile struct {
	rel  string
	size int
	seed int
}

func cvParse(s string) []cvFile {
	var out []cvFile
	for _, t := range commaList(s) {
		parts := strings.Split(t, ":")
		if len(parts) != 3 {
			continue
		}
		out = append(out, cvFile{rel: parts[0], size: atoi(parts[1]), seed: atoi(parts[2])})
	}
	return out
}

func execCreateVerify(ops []string) []string {
	var obs []string
	for _, op := range ops {
		obs = append(obs, cvRun(kv(op)))
	}
	return obs
}

func cvRun(m map[string]string) string {
	tmp, err := os.MkdirTemp("", "verif-cv-")
	if err != nil {
		return "harness-error"
	}
	defer os.RemoveAll(tmp)
	files := cvParse(m["files"])
	pl := uint32(atou(m["pl"]))
	root := filepath.Join(tmp, "tree")
	var target string
	if m["mode"] == "single" {
		if len(files) == 0 {
			return "harness-error"
		}
		target = filepath.Join(tmp, filepath.Base(files[0].rel))
		files = files[:1]
		files[0].rel = filepath.Base(files[0].rel)
		if err := cvWrite(target, files[0]); err != nil {
			return "harness-error"
		}
	} else {
		target = root
		if err := os.MkdirAll(root, 0o755); err != nil {
			return "harness-error"
		}
		for _, f := range files {
			if err := cvWrite(filepath.Join(root, filepath.FromSlash(f.rel)), f); err != nil {
				return "harness-error"
			}
		}
		// links=<rel>><target rel>,…: symbolic links to files of the tree. A reader of the tree (and the storage
		// that later opens the same paths) sees a file with the target's content there.
		for _, t := range commaList(m["links"]) {
			parts := strings.SplitN(t, ">", 2)
			if len(parts) != 2 {
				continue
			}
			for _, f := range files {
				if f.rel != parts[1] {
					continue
				}
				lp := filepath.Join(root, filepath.FromSlash(parts[0]))
				if err := os.MkdirAll(filepath.Dir(lp), 0o755); err != nil {
					return "harness-error"
				}
				if err := os.Symlink(filepath.Join(root, filepath.FromSlash(f.rel)), lp); err != nil {
					return "harness-error"
				}
				files = append(files, cvFile{rel: parts[0], size: f.size, seed: f.seed})
				break
			}
		}
	}
	// expected piece table: concatenation in lexical walk order, independent of the code under test
	sorted := append([]cvFile(nil), files...)
	sort.Slice(sorted, func(i, j int) bool { return cvWalkLess(sorted[i].rel, sorted[j].rel) })
	var all []byte
	for _, f := range sorted {
		for k := 0; k < f.size; k++ {
			all = append(all, cvByte(f.seed, k))
		}
	}
	var want []byte
	for off := 0; off < len(all); off += int(pl) {
		end := off + int(pl)
		if end > len(all) {
			end = len(all)
		}
		h := sha1.Sum(all[off:end])
		want = append(want, h[:]...)
	}
	wantSum := sha1.Sum(want)

	b, err := metainfo.NewInfoBytes("", []string{target}, false, pl, "", logger.New("verif"))
	if err != nil {
		return "create-error"
	}
	info, err := metainfo.NewInfo(b, true, true)
	if err != nil {
		return "parse-error"
	}
	sto, err := filestorage.New(tmp, 0o644)
	if err != nil {
		return "harness-error"
	}
	al := allocator.New()
	progressC := make(chan allocator.Progress, len(info.Files)+1)
	resultC := make(chan *allocator.Allocator, 1)
	al.Run(info, sto, progressC, resultC)
	<-resultC
	defer func() {
		for _, f := range al.Files {
			if f.Storage != nil {
				f.Storage.Close()
			}
		}
	}()
	if al.Error != nil {
		return "alloc-error"
	}
	pieces := piece.NewPieces(info, al.Files)
	v := verifier.New()
	vp := make(chan verifier.Progress, len(pieces)+1)
	vr := make(chan *verifier.Verifier, 1)
	v.Run(pieces, vp, vr)
	<-vr
	if v.Error != nil {
		return "verify-error"
	}
	var table []byte
	for i := uint32(0); i < info.NumPieces; i++ {
		table = append(table, info.PieceHash(i)...)
	}
	got := sha1.Sum(table)
	npad := 0
	for _, f := range info.Files {
		if f.Padding {
			npad++
		}
	}
	return fmt.Sprintf("ok np=%d set=%d files=%d pad=%d length=%d missing=%s table=%s",
		info.NumPieces, v.Bitfield.Count(), len(info.Files), npad, info.Length, b01(al.HasMissing), b01(got == wantSum))
}

// cvWalkLess orders relative paths the way filepath.Walk visits them (lexical per directory,
// a directory's content right after its name).
func cvWalkLess(a, b string) bool {
	as, bs := strings.Split(a, "/"), strings.Split(b, "/")
	for i := 0; i < len(as) && i < len(bs); i++ {
		if as[i] != bs[i] {
			return as[i] < bs[i]
		}
	}
	return len(as) < len(bs)
}

func cvWrite(path string, f cvFile) error {
	if err := os.MkdirAll(filepath.Dir(path), 0o755); err != nil {
		return err
	}
	d := make([]byte, f.size)
	for k := range d {
		d[k] = cvByte(f.seed, k)
	}
	return os.WriteFile(path, d, 0o644)
}

func genCreateVerify(r *Rng, n int, tier string) []Case {
	var cases []Case
	names := []string{"a", "b", "c.txt", "d.bin", "e", "zz", "A", "0", "x_y", "ü", ".hidden", "_____padding_file_0", "long-name-with-dashes.tar.gz",
		// siblings of the directories below whose names continue the directory name with a character that sorts
		// before '/': directory-walk order and joined-path order differ
		"sub.txt", "sub-1", "sub!", "a.d-x", "a.d.bak", "Z.z", "Z-", "sub/deep.log", "sub/deep-2"}
	dirs := []string{"", "", "", "sub/", "sub/deep/", "a.d/", "Z/"}
	for i := 0; i < n; i++ {
		pl := 16384 * r.Pick(1, 1, 1, 2, 4)
		k := r.Range(1, 6)
		mode := "dir"
		if r.Chance(15) {
			mode, k = "single", 1
		}
		used := map[string]bool{}
		var parts []string
		allowPadName := r.Chance(10)
		for j := 0; j < k; j++ {
			var rel string
			for tries := 0; tries < 20; tries++ {
				nm := names[r.Intn(len(names))]
				if nm == "_____padding_file_0" && !allowPadName {
					continue
				}
				rel = dirs[r.Intn(len(dirs))] + nm
				// a name must not be both a file and a directory prefix
				ok := !used[rel]
				for u := range used {
					if strings.HasPrefix(u, rel+"/") || strings.HasPrefix(rel, u+"/") {
						ok = false
					}
				}
				if ok {
					break
				}
				rel = ""
			}
			if rel == "" {
				continue
			}
			used[rel] = true
			m := r.Range(0, 3)
			size := r.Pick(0, 1, pl-1, pl, pl+1, m*pl, m*pl+1, 16384, 16383, r.Range(0, 3*pl), r.Range(0, 1000))
			if size < 0 {
				size = 0
			}
			parts = append(parts, fmt.Sprintf("%s:%d:%d", rel, size, r.Intn(200)))
		}
		links := ""
		if mode == "dir" && len(parts) > 0 && r.Chance(25) {
			// a symbolic link to one of the files, under a name that is not in use
			tgt := strings.SplitN(parts[r.Intn(len(parts))], ":", 2)[0]
			for _, nm := range []string{"link", "sub/link.txt", "0link", "zz-link"} {
				ok := !used[nm]
				for u := range used {
					if strings.HasPrefix(u, nm+"/") || strings.HasPrefix(nm, u+"/") {
						ok = false
					}
				}
				if ok && r.Chance(70) {
					links = " links=" + nm + ">" + tgt
					break
				}
			}
		}
		cases = append(cases, Case{ID: fmt.Sprintf("create-verify-%d", i+1), Ops: []string{
			fmt.Sprintf("createverify pl=%d mode=%s files=%s%s", pl, mode, joinOrDash(parts), links)}})
	}
	return cases
}
