//go:build verif

package main

import (
	"fmt"
	"net"
	"strings"
	"time"

	"github.com/cenkalti/rain/v2/internal/addrlist"
	"github.com/cenkalti/rain/v2/internal/blocklist"
	"github.com/cenkalti/rain/v2/internal/externalip"
	"github.com/cenkalti/rain/v2/internal/peerpriority"
	"github.com/cenkalti/rain/v2/internal/peersource"
)

// Suite addrlist (C18, C17): op sequences on the real AddrList with the real peerpriority and a real Blocklist.
//
// ops (first op of a case must be `new`):
//   new max=<n> port=<p> client=<u32|nil> bl=<cidr;cidr;...|nil>
//   setclient ip=<u32|nil>                      the torrent's externalIP changes (BEP 10 "yourip")
//   push src=<0..4> addrs=<u32>:<port>,...
//   pop | reset
// obs:
//   new/setclient: ok ext=<u32,...>             (interface addresses externalip would filter; normally none)
//   push : p=<priority per address> t=<priorities in peerByTime order> len=<n> c=<count per source> sync=<0|1>
//   pop  : a=<u32>:<port>:<src>|nil len=<n> c=<…> sync=<0|1>
//   reset: ok len=<n> c=<…> sync=<0|1>
// sync=1 iff no nil slot is left after push, every index field equals its position, and the btree holds exactly
// the priorities of the non-nil slots.

func init() {
	register(&Suite{Name: "addrlist", Gen: genAddrlist, Exec: execAddrlist})
}

func parseU32OrNil(s string) net.IP {
	if s == "nil" || s == "" {
		return nil
	}
	return u32ip(uint32(atou(s)))
}

type alState struct {
	al       *addrlist.AddrList
	clientIP net.IP
	last     time.Time
}

func (s *alState) tail(afterPush bool) string {
	bt, nils, indexOK, tree := s.al.VerifSnapshot()
	ok := indexOK && len(bt) == len(tree) && len(tree) == s.al.Len()
	if afterPush && nils != 0 {
		ok = false
	}
	if ok {
		set := map[uint32]int{}
		for _, p := range bt {
			set[p]++
		}
		for _, p := range tree {
			set[p]--
		}
		for _, v := range set {
			if v != 0 {
				ok = false
			}
		}
	}
	var cs []string
	for src := peersource.Tracker; src <= peersource.Incoming; src++ {
		cs = append(cs, fmt.Sprint(s.al.LenSource(src)))
	}
	return fmt.Sprintf("len=%d c=%s sync=%s", s.al.Len(), strings.Join(cs, ","), b01(ok))
}

func execAddrlist(ops []string) []string {
	var obs []string
	st := &alState{}
	var ext []string
	for _, ip := range externalip.VerifIPs() {
		ext = append(ext, fmt.Sprint(uint32(ip[0])<<24|uint32(ip[1])<<16|uint32(ip[2])<<8|uint32(ip[3])))
	}
	for _, op := range ops {
		m := kv(op)
		if st.al == nil && m["_"] != "new" {
			obs = append(obs, "no-list")
			continue
		}
		switch m["_"] {
		case "new":
			var bl *blocklist.Blocklist
			if m["bl"] != "nil" && m["bl"] != "" {
				bl = blocklist.New()
				text := strings.ReplaceAll(m["bl"], ";", "\n")
				if m["bl"] == "-" {
					text = ""
				}
				if _, err := bl.Reload(strings.NewReader(text)); err != nil {
					obs = append(obs, "bad-blocklist")
					st.al = nil
					continue
				}
			}
			st.clientIP = parseU32OrNil(m["client"])
			st.al = addrlist.New(atoi(m["max"]), bl, atoi(m["port"]), &st.clientIP)
			st.last = time.Now()
			obs = append(obs, "ok ext="+joinOrDash(ext))
		case "setclient":
			st.clientIP = parseU32OrNil(m["ip"])
			obs = append(obs, "ok ext="+joinOrDash(ext))
		case "push":
			var addrs []*net.TCPAddr
			var prios []string
			for _, a := range commaList(m["addrs"]) {
				p := strings.Split(a, ":")
				ta := &net.TCPAddr{IP: u32ip(uint32(atou(p[0]))), Port: atoi(p[1])}
				addrs = append(addrs, ta)
				prios = append(prios, fmt.Sprint(peerpriority.Calculate(ta, st.al.VerifClientAddr())))
			}
			// timestamps of different pushes must differ: wait until the clock has moved
			for !time.Now().After(st.last) {
			}
			panicked := ""
			func() {
				defer func() {
					if r := recover(); r != nil {
						panicked = strings.ReplaceAll(fmt.Sprint(r), " ", "-")
					}
				}()
				st.al.Push(addrs, peersource.Source(atoi(m["src"])))
			}()
			st.last = time.Now()
			if panicked != "" {
				obs = append(obs, "panic:"+panicked)
				continue
			}
			bt, _, _, _ := st.al.VerifSnapshot()
			var ts []string
			for _, p := range bt {
				ts = append(ts, fmt.Sprint(p))
			}
			obs = append(obs, fmt.Sprintf("p=%s t=%s %s", joinOrDash(prios), joinOrDash(ts), st.tail(true)))
		case "pop":
			a, src := st.al.Pop()
			if a == nil {
				obs = append(obs, "a=nil "+st.tail(false))
			} else {
				ip4 := a.IP.To4()
				v := uint32(ip4[0])<<24 | uint32(ip4[1])<<16 | uint32(ip4[2])<<8 | uint32(ip4[3])
				obs = append(obs, fmt.Sprintf("a=%d:%d:%d %s", v, a.Port, int(src), st.tail(false)))
			}
		case "reset":
			st.al.Reset()
			obs = append(obs, "ok "+st.tail(false))
		default:
			obs = append(obs, "unknown-op")
		}
	}
	return obs
}

func genAddrlist(r *Rng, n int, tier string) []Case {
	var cases []Case
	for i := 0; i < n; i++ {
		max := r.Pick(0, 1, 2, 3, 3, 4, 5, 8, 20)
		port := r.Pick(6881, 6881, 50000, 1)
		// a small universe of addresses so that equal priorities (same IP, other port; IPs that the BEP 40 mask
		// folds together), own address, blocked addresses and evictions coincide often
		client := uint32(r.PickU(0x0A000001, 0x7F000001, 0xC0A80105, 0x05060708))
		var pool []uint32
		for j := 0; j < 10; j++ {
			switch r.Intn(6) {
			case 0:
				pool = append(pool, client) // own IP
			case 1:
				pool = append(pool, 0x7F000001+uint32(r.Intn(3))) // loopback
			case 2:
				pool = append(pool, client&0xFFFFFF00|uint32(r.Intn(256))) // same /24
			case 3:
				pool = append(pool, client&0xFFFF0000|uint32(r.Intn(1<<16))) // same /16
			default:
				pool = append(pool, 0x0B000000+uint32(r.Intn(16))) // far: the mask 0x5555 folds neighbours
			}
		}
		bl := "nil"
		if r.Chance(60) {
			var rules []string
			for j := 0; j < r.Range(0, 3); j++ {
				v := pool[r.Intn(len(pool))]
				rules = append(rules, blRule{v, r.Pick(32, 31, 30, 24)}.String())
			}
			bl = strings.Join(rules, ";")
			if bl == "" {
				bl = "-"
			}
		}
		cl := fmt.Sprint(client)
		if r.Chance(15) {
			cl = "nil"
		}
		ops := []string{fmt.Sprintf("new max=%d port=%d client=%s bl=%s", max, port, cl, bl)}
		nops := r.Range(3, 14)
		for j := 0; j < nops; j++ {
			switch k := r.Intn(100); {
			case k < 55:
				na := r.Pick(0, 1, 1, 2, 3, 5, 9, 16)
				if tier == "thorough" && r.Chance(5) {
					na = 30 // beyond the insertion-sort threshold of slices.SortFunc
				}
				var as []string
				for x := 0; x < na; x++ {
					ip := pool[r.Intn(len(pool))]
					if r.Chance(10) {
						ip = uint32(r.U64())
					}
					p := r.Pick(port, port, 0, 1, 80, 6881, 6882, 65535)
					as = append(as, fmt.Sprintf("%d:%d", ip, p))
				}
				ops = append(ops, fmt.Sprintf("push src=%d addrs=%s", r.Intn(5), joinOrDash(as)))
			case k < 85:
				ops = append(ops, "pop")
			case k < 92:
				ops = append(ops, "reset")
			default:
				ip := "nil"
				if r.Chance(80) {
					ip = fmt.Sprint(pool[r.Intn(len(pool))])
				}
				ops = append(ops, "setclient ip="+ip)
			}
		}
		cases = append(cases, Case{ID: fmt.Sprintf("addrlist-%d", i+1), Ops: ops})
	}
	return cases
}
