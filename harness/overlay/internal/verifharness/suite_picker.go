//go:build verif

package main

import (
	"fmt"
	"strings"

	"github.com/cenkalti/rain/v2/internal/bitfield"
	"github.com/cenkalti/rain/v2/internal/filesection"
	"github.com/cenkalti/rain/v2/internal/peer"
	"github.com/cenkalti/rain/v2/internal/piece"
	"github.com/cenkalti/rain/v2/internal/piecepicker"
	"github.com/cenkalti/rain/v2/internal/urldownloader"
	"github.com/cenkalti/rain/v2/internal/webseedsource"
)

// Suite picker (C09): operation sequences on the exported API of piecepicker.PiecePicker with
// real peer.Peer / webseedsource.WebseedSource values, wrapped in the same glue the event loop of
// package torrent puts around the picker (torrent_start.go, torrent_close.go, torrent_write.go,
// torrent_messagehandler.go, torrent_peer.go, torrent_webseed.go), copied statement by statement.
//
// ops
//	new n= dup= seq= srcs= done=<idx,…> secs=<name.off.len.pad+…>/<piece>/…
//	connect | have p= i= | afast p= i= | unchoke p= | choke p= | snub p= | cancel p= | disc p= | pick p=
//	pdone p= | wwrite i= | wok i= web= | wfail i= | pickweb k= | wadv k= | closeweb k=
//	raw API calls outside the protocol (correspondence only): rawsnub|rawchoke|rawunchoke|rawcancel|rawhave p= i= | rawstopat k= i=
// observation
//	<result> <picker dump> S=<b.e.c|->,… Q=<choking><closed>;<dl idx:af|->;<allowed fast idx.…|->|…
//	result: ok | skip | pick=<i>:<af> | pick=- | web=<b>:<e> | web=- | panic:<kind> | dead | nostate

func init() {
	register(&Suite{Name: "picker", Gen: genPicker, Exec: execPicker})
}

type simDl struct {
	pe  *peer.Peer
	idx uint32
	af  bool
}

type pickerSim struct {
	pp     *piecepicker.PiecePicker
	pieces []piece.Piece
	peers  []*peer.Peer
	dls    map[*peer.Peer]*simDl // t.pieceDownloaders
	srcs   []*webseedsource.WebseedSource
	dead   bool
}

func (s *pickerSim) n() int { return len(s.pieces) }

func (s *pickerSim) peerOK(p int) bool { return p >= 0 && p < len(s.peers) && !s.peers[p].Closed }

// closePieceDownloader of torrent_close.go.
func (s *pickerSim) closePieceDownloader(pd *simDl) {
	pe := pd.pe
	_, open := s.dls[pe]
	if !open {
		return
	}
	delete(s.dls, pe)
	s.pp.HandleCancelDownload(pe, pd.idx)
	pe.Downloading = false
}

func (s *pickerSim) dump() string {
	var sb strings.Builder
	sb.WriteString(s.pp.VerifDump())
	sb.WriteString(" S=")
	if len(s.srcs) == 0 {
		sb.WriteString("-")
	}
	for k, src := range s.srcs {
		if k > 0 {
			sb.WriteByte(',')
		}
		if src.Downloader == nil {
			sb.WriteString("-")
		} else {
			fmt.Fprintf(&sb, "%d.%d.%d", src.Downloader.Begin, src.Downloader.End, src.Downloader.ReadCurrent())
		}
	}
	sb.WriteString(" Q=")
	if len(s.peers) == 0 {
		sb.WriteString("-")
	}
	for k, pe := range s.peers {
		if k > 0 {
			sb.WriteByte('|')
		}
		dl := "-"
		if pd, ok := s.dls[pe]; ok {
			dl = fmt.Sprintf("%d:%s", pd.idx, b01(pd.af))
		}
		var af []string
		for _, pi := range pe.ReceivedAllowedFast.Items {
			af = append(af, fmt.Sprint(pi.Index))
		}
		afs := "-"
		if len(af) > 0 {
			afs = strings.Join(af, ".")
		}
		fmt.Fprintf(&sb, "%s%s;%s;%s", b01(pe.PeerChoking), b01(pe.Closed), dl, afs)
	}
	return sb.String()
}

func panicKind(msg string) string {
	switch {
	case strings.Contains(msg, "snubbed while choked"):
		return "snubbed-while-choked"
	case strings.Contains(msg, "invalid source in piece"):
		return "invalid-source"
	case strings.Contains(msg, "already downloading"):
		return "already-downloading"
	case msg == "stopat":
		return "stopat"
	case strings.Contains(msg, "index out of range"):
		return "index"
	case strings.Contains(msg, "nil pointer") || strings.Contains(msg, "nil map"):
		return "nil"
	}
	return "other:" + strings.ReplaceAll(msg, " ", "_")
}

func (s *pickerSim) newPicker(m map[string]string) string {
	var pieces []piece.Piece
	if m["secs"] != "" && m["secs"] != "-" {
		for i, ps := range strings.Split(m["secs"], "/") {
			var data filesection.Piece
			var total int64
			for _, t := range strings.Split(ps, "+") {
				f := strings.Split(t, ".")
				if len(f) != 4 {
					continue
				}
				sec := filesection.FileSection{Name: "f" + f[0], Offset: atoi64(f[1]), Length: atoi64(f[2]), Padding: f[3] == "1"}
				data = append(data, sec)
				total += sec.Length
			}
			pieces = append(pieces, piece.Piece{Index: uint32(i), Length: uint32(total), Data: data})
		}
	}
	for _, d := range commaList(m["done"]) {
		if i := atoi(d); i >= 0 && i < len(pieces) {
			pieces[i].Done = true
		}
	}
	ns := atoi(m["srcs"])
	urls := make([]string, ns)
	for i := range urls {
		urls[i] = fmt.Sprintf("http://verif/%d", i)
	}
	s.pieces = pieces
	s.srcs = webseedsource.NewList(urls)
	s.peers = nil
	s.dls = map[*peer.Peer]*simDl{}
	s.pp = piecepicker.New(s.pieces, atoi(m["dup"]), s.srcs, m["seq"] == "1")
	return "ok"
}

// apply runs one op through the loop glue and the real picker.
func (s *pickerSim) apply(op string) (res string) {
	m := kv(op)
	name := m["_"]
	if s.dead {
		return "dead"
	}
	if name == "new" {
		return s.newPicker(m) + " " + s.dump()
	}
	if s.pp == nil {
		return "nostate"
	}
	defer func() {
		if r := recover(); r != nil {
			s.dead = true
			res = "panic:" + panicKind(fmt.Sprint(r))
		}
	}()
	r := s.applyOp(name, m)
	if r == "skip" {
		return r // nothing was called, nothing changed
	}
	return r + " " + s.dump()
}

func (s *pickerSim) applyOp(name string, m map[string]string) string {
	p, i, k := atoi(m["p"]), atoi(m["i"]), atoi(m["k"])
	_, hasP := m["p"]
	if hasP && strings.HasPrefix(name, "raw") {
		if p < 0 || p >= len(s.peers) {
			return "skip"
		}
	} else if hasP && !s.peerOK(p) {
		return "skip"
	}
	var pe *peer.Peer
	if hasP {
		pe = s.peers[p]
	}
	switch name {
	case "connect":
		id := len(s.peers)
		pe := &peer.Peer{Bitfield: bitfield.New(uint32(s.n())), PeerChoking: true}
		pe.ID[0], pe.ID[1] = byte(id>>8), byte(id)
		s.peers = append(s.peers, pe)
		return "ok"
	case "have": // handlePeerMessage, HaveMessage
		if i < 0 || i >= s.n() {
			return "skip" // the loop closes the peer instead
		}
		s.pp.HandleHave(pe, uint32(i))
		return "ok"
	case "afast": // AllowedFastMessage
		if i < 0 || i >= s.n() {
			return "skip"
		}
		s.pp.HandleAllowedFast(pe, uint32(i))
		return "ok"
	case "unchoke": // UnchokeMessage
		pe.PeerChoking = false
		pd, ok := s.dls[pe]
		if !ok {
			return "ok"
		}
		if pd.af {
			return "ok"
		}
		s.pp.HandleUnchoke(pe, pd.idx)
		return "ok"
	case "choke": // ChokeMessage
		pe.PeerChoking = true
		pd, ok := s.dls[pe]
		if !ok {
			return "ok"
		}
		if pd.af {
			return "ok"
		}
		s.pp.HandleChoke(pe, pd.idx)
		return "ok"
	case "snub": // handlePeerSnubbed
		pd, ok := s.dls[pe]
		if !ok {
			return "skip"
		}
		if pe.PeerChoking {
			return "skip"
		}
		pe.Snubbed = true
		s.pp.HandleSnubbed(pe, pd.idx)
		return "ok"
	case "cancel": // closePieceDownloader(t.pieceDownloaders[pe])
		if pd, ok := s.dls[pe]; ok {
			s.closePieceDownloader(pd)
		}
		return "ok"
	case "disc": // closePeer
		pe.Closed = true
		if pd, ok := s.dls[pe]; ok {
			s.closePieceDownloader(pd)
		}
		s.pp.HandleDisconnect(pe)
		return "ok"
	case "pick": // startSinglePieceDownloader
		pi, allowedFast := s.pp.PickFor(pe)
		if pi == nil {
			return "pick=-"
		}
		if _, ok := s.dls[pe]; ok {
			panic("peer already has a piece downloader")
		}
		s.dls[pe] = &simDl{pe: pe, idx: pi.Index, af: allowedFast}
		pe.Downloading = true
		return fmt.Sprintf("pick=%d:%s", pi.Index, b01(allowedFast))
	case "pdone": // handlePieceMessage, last block
		pd, ok := s.dls[pe]
		if !ok {
			return "skip"
		}
		pc := &s.pieces[pd.idx]
		if pc.Writing || pc.Done {
			return "skip"
		}
		s.closePieceDownloader(pd)
		pc.Writing = true
		return "ok"
	case "wwrite": // handleWebseedPieceResult, accepted result
		if i < 0 || i >= s.n() || s.pieces[i].Writing || s.pieces[i].Done {
			return "skip"
		}
		s.pieces[i].Writing = true
		return "ok"
	case "wok": // handlePieceWriteDone, hash ok
		if i < 0 || i >= s.n() || !s.pieces[i].Writing || s.pieces[i].Done {
			return "skip"
		}
		pc := &s.pieces[i]
		pc.Writing = false
		pc.Done = true
		src := s.pp.RequestedWebseedSource(pc.Index)
		if m["web"] != "1" && src != nil {
			s.pp.WebseedStopAt(src, pc.Index)
		}
		for _, pe := range s.pp.RequestedPeers(pc.Index) {
			pd2 := s.dls[pe]
			s.closePieceDownloader(pd2)
		}
		return "ok"
	case "wfail":
		if i < 0 || i >= s.n() || !s.pieces[i].Writing {
			return "skip"
		}
		s.pieces[i].Writing = false
		return "ok"
	case "pickweb": // startPieceDownloaderForWebseed + startWebseedDownloader
		if k < 0 || k >= len(s.srcs) || s.srcs[k].Downloading() {
			return "skip"
		}
		sp := s.pp.PickWebseed(s.srcs[k])
		if sp == nil {
			return "web=-"
		}
		sp.Source.Downloader = urldownloader.VerifNewIdle(sp.Begin, sp.End)
		return fmt.Sprintf("web=%d:%d", sp.Begin, sp.End)
	case "wadv":
		if k < 0 || k >= len(s.srcs) || s.srcs[k].Downloader == nil {
			return "skip"
		}
		d := s.srcs[k].Downloader
		if d.ReadCurrent()+1 >= d.End {
			return "skip"
		}
		d.VerifIncrCurrent()
		return "ok"
	case "closeweb":
		if k < 0 || k >= len(s.srcs) {
			return "skip"
		}
		s.pp.CloseWebseedDownloader(s.srcs[k])
		return "ok"
	// raw calls of the exported API outside the loop's protocol (cases `raw-…`: correspondence
	// only, the invariant is not expected to hold after them)
	case "rawsnub":
		s.pp.HandleSnubbed(pe, uint32(i))
		return "ok"
	case "rawchoke":
		s.pp.HandleChoke(pe, uint32(i))
		return "ok"
	case "rawunchoke":
		s.pp.HandleUnchoke(pe, uint32(i))
		return "ok"
	case "rawcancel":
		s.pp.HandleCancelDownload(pe, uint32(i))
		return "ok"
	case "rawhave":
		if i < 0 || i >= s.n() {
			return "skip" // pe.Bitfield.Set panics first, not the picker
		}
		s.pp.HandleHave(pe, uint32(i))
		return "ok"
	case "rawstopat":
		if k < 0 || k >= len(s.srcs) {
			return "skip"
		}
		closed := false
		func() {
			defer func() {
				if r := recover(); r != nil {
					panic("stopat") // which assertion fires first is not compared
				}
			}()
			closed = s.pp.WebseedStopAt(s.srcs[k], uint32(i))
		}()
		return "stop=" + b01(closed)
	}
	return "skip"
}

func execPicker(ops []string) []string {
	s := &pickerSim{}
	obs := make([]string, 0, len(ops))
	for _, op := range ops {
		obs = append(obs, s.apply(op))
	}
	return obs
}

// ---- generator ----

// layout builds the per-piece section lists of a torrent with the given file lengths (pad marks
// padding files) and piece length.
func pickerLayout(lens []int, pads []bool, pl int) []string {
	var pieces []string
	var cur []string
	room := pl
	for f, ln := range lens {
		off := 0
		for ln > 0 {
			take := ln
			if take > room {
				take = room
			}
			cur = append(cur, fmt.Sprintf("%d.%d.%d.%s", f, off, take, b01(pads[f])))
			off += take
			ln -= take
			room -= take
			if room == 0 {
				pieces = append(pieces, strings.Join(cur, "+"))
				cur, room = nil, pl
			}
		}
	}
	if len(cur) > 0 {
		pieces = append(pieces, strings.Join(cur, "+"))
	}
	return pieces
}

func genPickerNew(r *Rng, big bool) (string, int, int) {
	pl := r.Pick(1, 2, 4)
	nf := r.Pick(1, 1, 2, 3)
	var lens []int
	var pads []bool
	target := r.Range(1, 10)
	if big {
		// maxWebseedPieces = n/20: ranges of 2..5 pieces need 40..100 pieces
		target = r.Pick(40, 41, 47, 59, 60, 64, 80, 100)
	}
	for f := 0; f < nf; f++ {
		ln := r.Range(1, target*pl/nf+1)
		if big {
			ln = target*pl/nf + r.Intn(2)
		}
		lens = append(lens, ln)
		pads = append(pads, false)
		if r.Chance(25) && ln%pl != 0 {
			lens = append(lens, pl-ln%pl)
			pads = append(pads, true)
		}
	}
	secs := pickerLayout(lens, pads, pl)
	n := len(secs)
	var done []string
	donePct := r.Pick(0, 0, 25, 25)
	if big {
		// with nearly everything done no gap is left: web seeds steal from each other
		donePct = r.Pick(0, 25, 80, 93, 97)
	}
	if big && r.Chance(30) {
		// everything done but a window of a few adjacent pieces: one web seed takes the window, the
		// next one finds no gap and steals the second half of it
		w := r.Range(2, 6)
		a := r.Intn(n - w + 1)
		for i := 0; i < n; i++ {
			if i < a || i >= a+w {
				done = append(done, fmt.Sprint(i))
			}
		}
	} else {
		for i := 0; i < n; i++ {
			if r.Chance(donePct) {
				done = append(done, fmt.Sprint(i))
			}
		}
	}
	ns := r.Pick(0, 0, 0, 1, 2, 3)
	if big {
		ns = r.Pick(1, 2, 2, 3, 3)
	}
	return fmt.Sprintf("new n=%d dup=%d seq=%s srcs=%d done=%s secs=%s", n, r.Pick(1, 1, 2, 2, 3, 0),
		b01(r.Chance(50)), ns, joinOrDash(done), strings.Join(secs, "/")), n, ns
}

// genPicker: every case starts with `new`; then weighted random events of the loop, aimed at the
// states where the indexes interact: several peers holding the same few pieces (end game, stalled
// downloads), allowed-fast pieces of choking and unchoking peers, web-seed ranges that are stolen
// from, truncated by a peer's finished piece, closed and re-picked.
func genPicker(r *Rng, cnt int, tier string) []Case {
	var cases []Case
	for c := 0; c < cnt; c++ {
		sim := &pickerSim{}
		big := r.Chance(10)
		raw := r.Chance(7)
		newOp, n, ns := genPickerNew(r, big)
		ops := []string{newOp}
		sim.apply(newOp)
		do := func(op string) { ops = append(ops, op); sim.apply(op) }
		nops := r.Range(40, 110)
		if big {
			nops += 60
		}
		wantPeers := r.Range(1, 5)
		webWrites := map[int]bool{}
		haveBias := r.Pick(30, 60, 90, 100) // how much of the torrent a peer usually has
		openPeer := func() (int, bool) {
			var open []int
			for p, pe := range sim.peers {
				if !pe.Closed {
					open = append(open, p)
				}
			}
			if len(open) == 0 {
				return 0, false
			}
			return open[r.Intn(len(open))], true
		}
		pp := func() int { // mostly a connected peer
			if p, ok := openPeer(); ok && !r.Chance(3) {
				return p
			}
			return r.Intn(len(sim.peers) + 2)
		}
		pi := func() int {
			if r.Chance(2) {
				return n + r.Intn(2)
			}
			return r.Intn(n)
		}
		if r.Chance(10) {
			// directed opening: sequential order against the allowed-fast set (DESIGN 10 #17b)
			ops[0] = strings.Replace(ops[0], "seq=0", "seq=1", 1)
			sim = &pickerSim{}
			sim.apply(ops[0])
			do("connect")
			for i := 0; i < n; i++ {
				if !r.Chance(10) {
					do(fmt.Sprintf("have p=0 i=%d", i))
				}
			}
			for k := r.Range(1, 3); k > 0; k-- {
				do(fmt.Sprintf("afast p=0 i=%d", r.Intn(n)))
			}
			if r.Chance(85) {
				do("unchoke p=0")
			}
		}
		if big && r.Chance(50) {
			// every source asks for a range right away (startPieceDownloaders); with few pieces left the
			// later ones steal from the earlier ones
			for k := 0; k < ns; k++ {
				do(fmt.Sprintf("pickweb k=%d", k))
				if r.Chance(30) {
					do(fmt.Sprintf("wadv k=%d", r.Intn(ns)))
				}
			}
		}
		for len(ops) < nops && !sim.dead {
			var op string
			nopen := 0
			for _, pe := range sim.peers {
				if !pe.Closed {
					nopen++
				}
			}
			writing := -1
			for i := range sim.pieces {
				if sim.pieces[i].Writing {
					writing = i
				}
			}
			finish := func() string {
				o := ""
				if r.Chance(78) {
					o = fmt.Sprintf("wok i=%d web=%s", writing, b01(webWrites[writing] != r.Chance(5)))
				} else {
					o = fmt.Sprintf("wfail i=%d", writing)
				}
				delete(webWrites, writing)
				return o
			}
			if raw && r.Chance(12) && len(sim.peers) > 0 {
				q := r.Intn(len(sim.peers))
				do(fmt.Sprintf("%s p=%d i=%d k=%d", []string{"rawsnub", "rawchoke", "rawunchoke", "rawcancel", "rawhave", "rawstopat"}[r.Intn(6)],
					q, r.Pick(r.Intn(n), r.Intn(n), r.Intn(n), n), r.Intn(ns+1)))
				continue
			}
			x := r.Intn(100)
			if big && r.Chance(45) {
				// web-seed heavy stretch: pick ranges, let the downloaders advance, deliver results
				x = r.Pick(80, 82, 84, 86, 87, 88, 89, 90, 92, 94, 50, 55, 97)
			}
			if r.Chance(3) {
				// churn: two downloads are canceled, one of the peers asks again (end game order)
				var dl []int
				for p, pe := range sim.peers {
					if _, ok := sim.dls[pe]; ok {
						dl = append(dl, p)
					}
				}
				if len(dl) >= 2 {
					a := r.Intn(len(dl))
					b := (a + 1 + r.Intn(len(dl)-1)) % len(dl)
					do(fmt.Sprintf("cancel p=%d", dl[a]))
					do(fmt.Sprintf("cancel p=%d", dl[b]))
					do(fmt.Sprintf("pick p=%d", dl[r.Pick(a, b)]))
					continue
				}
			}
			if big && r.Chance(8) {
				// a peer gets a piece from inside a running web-seed range and asks: peer steals from web seed
				if p, ok := openPeer(); ok {
					for _, src := range sim.srcs {
						if d := src.Downloader; d != nil && d.End-d.ReadCurrent() >= 2 {
							i := int(d.ReadCurrent()) + 1 + r.Intn(int(d.End-d.ReadCurrent())-1)
							do(fmt.Sprintf("have p=%d i=%d", p, i))
							do(fmt.Sprintf("unchoke p=%d", p))
							do(fmt.Sprintf("cancel p=%d", p))
							do(fmt.Sprintf("pick p=%d", p))
							break
						}
					}
					continue
				}
			}
			if r.Chance(4) {
				// a download stalls (snubbed or choked) and another peer asks: re-request of stalled pieces
				var dl, idle []int
				for p, pe := range sim.peers {
					if _, ok := sim.dls[pe]; ok {
						dl = append(dl, p)
					} else if !pe.Closed {
						idle = append(idle, p)
					}
				}
				if len(dl) > 0 && len(idle) > 0 {
					a := dl[r.Intn(len(dl))]
					if r.Chance(60) {
						do(fmt.Sprintf("snub p=%d", a))
					} else {
						do(fmt.Sprintf("choke p=%d", a))
					}
					q := idle[r.Intn(len(idle))]
					do(fmt.Sprintf("unchoke p=%d", q))
					do(fmt.Sprintf("pick p=%d", q))
					continue
				}
			}
			switch {
			case nopen < wantPeers && x < 35 && len(sim.peers) < 9:
				// a new peer: handshake, bitfield, often unchoke and the first request at once
				p := len(sim.peers)
				do("connect")
				for i := 0; i < n; i++ {
					if r.Chance(haveBias) {
						do(fmt.Sprintf("have p=%d i=%d", p, i))
					}
				}
				if r.Chance(30) {
					do(fmt.Sprintf("afast p=%d i=%d", p, r.Intn(n)))
				}
				if r.Chance(70) {
					do(fmt.Sprintf("unchoke p=%d", p))
				}
				do(fmt.Sprintf("pick p=%d", p))
				continue
			case x < 6:
				op = fmt.Sprintf("have p=%d i=%d", pp(), pi())
			case x < 11:
				op = fmt.Sprintf("afast p=%d i=%d", pp(), pi())
			case x < 19:
				op = fmt.Sprintf("unchoke p=%d", pp())
			case x < 25:
				op = fmt.Sprintf("choke p=%d", pp())
			case x < 31:
				op = fmt.Sprintf("snub p=%d", pp())
			case x < 34:
				op = fmt.Sprintf("cancel p=%d", pp())
			case x < 36:
				op = fmt.Sprintf("disc p=%d", pp())
			case x < 60:
				op = fmt.Sprintf("pick p=%d", pp())
			case x < 78:
				if writing >= 0 {
					// the loop suspends piece messages and web-seed results while a write is in flight
					if r.Chance(90) {
						op = finish()
					} else {
						op = fmt.Sprintf("pdone p=%d", pp())
					}
				} else {
					// a downloading peer finishes its piece
					var dl []int
					for p, pe := range sim.peers {
						if _, ok := sim.dls[pe]; ok {
							dl = append(dl, p)
						}
					}
					if len(dl) > 0 && !r.Chance(5) {
						op = fmt.Sprintf("pdone p=%d", dl[r.Intn(len(dl))])
					} else {
						op = fmt.Sprintf("wok i=%d web=%s", pi(), b01(r.Bool()))
					}
				}
			case x < 85:
				op = fmt.Sprintf("pickweb k=%d", r.Intn(ns+1))
			case x < 91:
				op = fmt.Sprintf("wadv k=%d", r.Intn(ns+1))
			case x < 96:
				// result of a running web-seed download: a piece in [Begin, current]
				i := pi()
				if ns > 0 {
					k := r.Intn(ns)
					if d := sim.srcs[k].Downloader; d != nil && r.Chance(90) {
						i = int(d.Begin) + r.Intn(int(d.ReadCurrent()-d.Begin)+1)
					}
				}
				if writing < 0 {
					webWrites[i] = true
				}
				op = fmt.Sprintf("wwrite i=%d", i)
			case x < 98:
				op = fmt.Sprintf("closeweb k=%d", r.Intn(ns+1))
			default:
				op = fmt.Sprintf("wfail i=%d", pi())
			}
			do(op)
		}
		id := fmt.Sprintf("picker-%d", c+1)
		if raw {
			id = fmt.Sprintf("raw-%d", c+1)
		}
		cases = append(cases, Case{ID: id, Ops: ops})
	}
	return cases
}
