//go:build verif

package main

import (
	"fmt"
	"strings"
)

// Suite wsloop (C17, C10, C01): the torrent-level bookkeeping of web seed downloads on the REAL event loop.
// The world is the loop harness (zz_verif_loop.go) with scripted web seeds (zz_verif_wsloop.go): the torrent's
// own urldownloader goroutines run against in-process stubs that are parked until an op lets them deliver a piece
// (true or wrong bytes) or fail; the one-minute retry is delivered on t.webseedRetryC by an op.
//
// Generated: 1-5 sources x WebseedMaxDownloads 1-3; torrents of 1-6 pieces (every range is a single piece, so every
// result carries Done) and of 40-84 pieces (ranges of 2-4 pieces: WebseedStopAt, stealing between sources); honest,
// lying, failing and stalling sources; scripted peers that complete pieces (also inside web seed ranges, also with
// wrong bytes); gated writes (results arriving while a write is in flight); retries; stop/start. Every history
// ends with an honest phase (retries delivered, every parked source served) and `diskcheck final=1`.

func init() {
	register(&Suite{Name: "wsloop", NewStepper: newLoopStepper, GenStep: genWsLoop})
}

type wsSrcState struct {
	flags  string
	parked bool
	due    bool
}

// wsParse reads the web seed part of an observation.
func wsParse(o string, n int) (srcs []wsSrcState, m map[string]string) {
	m = obsKV(o)
	srcs = make([]wsSrcState, n)
	for _, e := range commaList(m["ws"]) {
		f := strings.Split(e, ":")
		if len(f) >= 2 && atoi(f[0]) < n {
			srcs[atoi(f[0])].flags = f[1]
		}
	}
	for _, e := range commaList(m["wsp"]) {
		f := strings.Split(e, ":")
		if len(f) == 2 && atoi(f[0]) < n {
			srcs[atoi(f[0])].parked = strings.HasPrefix(f[1], "p")
		}
	}
	for _, e := range commaList(m["wsr"]) {
		if atoi(e) < n {
			srcs[atoi(e)].due = true
		}
	}
	return
}

func genWsLoop(r *Rng, idx int, tier string, step func(op string) string) {
	nsrc := r.Range(1, 5)
	wcap := r.Range(1, 3)
	pl := r.Pick(4, 8, 16, 32)
	var np int
	switch roll := r.Intn(100); {
	case roll < 40:
		np = r.Range(1, 6)
	case roll < 62:
		np = r.Range(40, 46)
	case roll < 84:
		np = r.Range(60, 64)
	default:
		np = r.Range(80, 84)
	}
	total := np*pl - r.Pick(0, 0, 1, pl-1)
	if total < 1 {
		total = 1
	}
	l := layout{pl: pl, total: total}
	nf := r.Pick(1, 1, 2, 3)
	rest := total
	for i := 0; i < nf; i++ {
		ln := rest
		if i < nf-1 {
			ln = r.Pick(rest/2, r.Range(0, rest), pl, pl+1)
			if ln > rest {
				ln = rest
			}
		}
		l.lens = append(l.lens, ln)
		l.pads = append(l.pads, false)
		rest -= ln
	}
	multi := ""
	if nf == 1 && r.Chance(30) {
		multi = " multi=1"
	}
	o := step(fmt.Sprintf("new pl=%d files=%s%s webseeds=%d cfg.WebseedMaxDownloads=%d seq=%s cfg.EndgameMaxDuplicateDownloads=%d cfg.AllowedFastSet=0",
		l.pl, l.filesArg(), multi, nsrc, wcap, b01(r.Chance(25)), r.Pick(1, 2, 20)))
	if !strings.HasPrefix(o, "ok") {
		return
	}
	kinds := make([]string, nsrc)
	for i := range kinds {
		kinds[i] = r.Pick2("honest", "honest", "honest", "liar", "flaky", "staller")
	}
	var peers []*scriptPeer
	nextK := 1
	last := step("start")
	addPeer := func(kind string) {
		k := nextK
		nextK++
		p := &scriptPeer{k: k, kind: kind}
		peers = append(peers, p)
		o := step(fmt.Sprintf("peer k=%d fast=%s ext=0", k, b01(r.Chance(50))))
		if !strings.HasPrefix(o, "accepted") {
			p.closed = true
			return
		}
		absorb(peers, step(fmt.Sprintf("msg p=%d t=haveall", k)))
		last = step(fmt.Sprintf("msg p=%d t=unchoke", k))
		absorb(peers, last)
		p.unchoked = true
	}
	for i := r.Pick(0, 0, 1, 1, 2); i > 0; i-- {
		addPeer(r.Pick2("honest", "honest", "corrupt"))
	}
	gated := false
	do := func(op string) {
		last = step(op)
		absorb(peers, last)
	}
	peerDeliver := func(p *scriptPeer, honest bool) bool {
		if p.closed || len(p.pending) == 0 {
			return false
		}
		q := p.pending[0]
		p.pending = p.pending[1:]
		data := "true"
		if !honest {
			data = "flip"
		}
		do(fmt.Sprintf("msg p=%d t=piece i=%d b=%d l=%d data=%s", p.k, q[0], q[1], q[2], data))
		if strings.HasPrefix(last, "skipped:already-deferred") {
			p.pending = append([][3]int{q}, p.pending...) // not sent: another result is waiting for the write
			return false
		}
		return true
	}
	budget := 14 + r.Range(0, 30)
	if np >= 40 {
		budget += 30
	}
	if tier == "thorough" {
		budget *= 2
	}
	for s := 0; s < budget; s++ {
		srcs, m := wsParse(last, nsrc)
		if m["st"] == "Seeding" {
			break
		}
		var parked, due []int
		for i, sr := range srcs {
			if sr.parked {
				parked = append(parked, i)
			}
			if sr.due {
				due = append(due, i)
			}
		}
		waiting := m["susp"] == "1" && (strings.Contains(m["wsp"], ":v") || strings.HasPrefix(last, "deferred"))
		if !gated && !waiting && m["susp"] == "0" && r.Chance(35) {
			// directed: a peer is about to complete piece p of a web seed's range while that web seed is working on
			// piece p-1. Hold the writes; the peer's piece is written first, the web seed's result for p-1 (computed
			// before the range is cut at p) waits; after the write the range ends at p, the waiting result is taken,
			// and the downloader goes on to piece p, which is already there (the result must be discarded).
			if p, j, ok := wsFindOverlap(peers, m, nsrc); ok && srcs[j].parked {
				do("gate kind=write on=1")
				if peerDeliver(p, true) {
					do(fmt.Sprintf("ws i=%d do=serve", j))
				}
				do("gate kind=write on=0")
				do(fmt.Sprintf("ws i=%d do=%s", j, r.Pick2("serve", "serve", "lie")))
				continue
			}
		}
		roll := r.Intn(100)
		if waiting && roll >= 40 && gated && r.Chance(80) {
			roll = 15 // a result is waiting for the write: mostly let the write finish
		}
		switch {
		case roll < 5:
			do("stop")
			for _, p := range peers {
				p.closed = true
				p.pending = nil
			}
			if gated {
				// the write that was in flight ends now (on closed files), before the torrent is started again
				do("gate kind=write on=0")
				gated = false
			}
			if len(due) > 0 && r.Chance(30) {
				do(fmt.Sprintf("wsretry i=%d", due[r.Intn(len(due))])) // the retry arrives while the torrent is stopped
			}
			do("start")
		case roll < 11 && !gated:
			do("gate kind=write on=1")
			gated = true
		case roll < 22 && gated:
			do("gate kind=write on=0")
			gated = false
		case roll < 34 && len(due) > 0:
			do(fmt.Sprintf("wsretry i=%d", due[r.Intn(len(due))]))
		case roll < 40 && nextK <= 4:
			addPeer(r.Pick2("honest", "honest", "corrupt"))
		case roll < 62 && len(peers) > 0:
			p := peers[r.Intn(len(peers))]
			switch {
			case p.closed:
			case r.Chance(8):
				do(fmt.Sprintf("disconnect p=%d", p.k))
				p.closed = true
			default:
				peerDeliver(p, p.kind != "corrupt" || r.Chance(50))
			}
		case len(parked) > 0:
			i := parked[r.Intn(len(parked))]
			act := "serve"
			switch kinds[i] {
			case "liar":
				if r.Chance(45) {
					act = "lie"
				}
			case "flaky":
				if r.Chance(35) {
					act = "fail"
				}
			case "staller":
				if r.Chance(70) {
					continue // held: the response is not released now
				}
			default:
				if r.Chance(4) {
					act = r.Pick2("lie", "fail")
				}
			}
			do(fmt.Sprintf("ws i=%d do=%s", i, act))
		default:
			do("obs")
		}
	}
	// honest phase: the write gate is open, retries are delivered, the torrent runs, every source that can serve does
	if gated {
		do("gate kind=write on=0")
	}
	if m := obsKV(last); m["st"] == "Stopped" || m["st"] == "Stopping" {
		do("start")
	}
	final := 1
	for round := 0; round < 3*np+40; round++ {
		srcs, m := wsParse(last, nsrc)
		if m["st"] != "Downloading" {
			break
		}
		progressed := false
		for i, sr := range srcs {
			if sr.due {
				do(fmt.Sprintf("wsretry i=%d", i))
				progressed = true
			}
		}
		srcs, m = wsParse(last, nsrc)
		if m["st"] != "Downloading" {
			break
		}
		for i, sr := range srcs {
			if sr.parked {
				do(fmt.Sprintf("ws i=%d do=serve", i))
				progressed = true
				break
			}
		}
		if !progressed {
			for _, p := range peers {
				if peerDeliver(p, true) {
					progressed = true
					break
				}
			}
		}
		if !progressed {
			break
		}
		if round == 3*np+39 {
			final = 0 // the budget ran out, nothing is claimed about completion
		}
	}
	step(fmt.Sprintf("diskcheck final=%d", final))
}

// wsFindOverlap finds a live peer whose next answer completes piece p while a web seed with a range [b,e) ∋ p is
// working on piece p-1.
func wsFindOverlap(peers []*scriptPeer, m map[string]string, n int) (*scriptPeer, int, bool) {
	for _, p := range peers {
		if p.closed || len(p.pending) == 0 {
			continue
		}
		pi := p.pending[0][0]
		for _, e := range commaList(m["ws"]) {
			f := strings.Split(e, ":")
			if len(f) != 4 || !strings.Contains(f[1], "d") {
				continue
			}
			be := strings.Split(f[2], "-")
			if len(be) == 2 && atoi(be[0]) <= pi && pi < atoi(be[1]) && atoi(f[3]) == pi-1 && atoi(f[0]) < n {
				return p, atoi(f[0]), true
			}
		}
	}
	return nil, 0, false
}
