//go:build verif

package main

import (
	"fmt"
	"strings"

	"github.com/cenkalti/rain/v2/internal/infodownloader"
)

// Suite infodl (C13): operation sequences on the real infodownloader.InfoDownloader with a
// recording fake peer (same shape as the package's own TestPeer).
//
//	new size=<n>                          obs: len=<n> done=<0|1> rle=<v*count,…>
//	req q=<int>                           obs: sent=<i,…|-> done=<0|1>
//	got i=<u32> len=<n> a=<b> k=<n> b=<b> obs: ok|err:index|err:unrequested|err:size|err:other  done=<0|1> rle=<…>
//
// The data of a `got` is a^k ++ b^(len-k): piecewise constant so the whole buffer can be printed
// run-length encoded, yet with an inner boundary so a shifted copy is visible.

func init() {
	register(&Suite{Name: "infodl", Gen: genInfoDL, Exec: execInfoDL})
}

type idlRecPeer struct {
	size uint32
	sent []uint32
}

func (p *idlRecPeer) MetadataSize() uint32              { return p.size }
func (p *idlRecPeer) RequestMetadataPiece(index uint32) { p.sent = append(p.sent, index) }

func idlRLE(b []byte) string {
	if len(b) == 0 {
		return "-"
	}
	var sb strings.Builder
	i := 0
	for i < len(b) {
		j := i
		for j < len(b) && b[j] == b[i] {
			j++
		}
		if sb.Len() > 0 {
			sb.WriteByte(',')
		}
		fmt.Fprintf(&sb, "%d*%d", b[i], j-i)
		i = j
	}
	return sb.String()
}

func infodlData(m map[string]string) []byte {
	ln := atoi(m["len"])
	if ln < 0 {
		ln = 0
	}
	k := atoi(m["k"])
	if k > ln {
		k = ln
	}
	if k < 0 {
		k = 0
	}
	data := make([]byte, ln)
	a, b := byte(atoi(m["a"])), byte(atoi(m["b"]))
	for i := range data {
		if i < k {
			data[i] = a
		} else {
			data[i] = b
		}
	}
	return data
}

func execInfoDL(ops []string) []string {
	var obs []string
	var p *idlRecPeer
	var d *infodownloader.InfoDownloader
	for _, op := range ops {
		m := kv(op)
		switch m["_"] {
		case "new":
			p = &idlRecPeer{size: uint32(atou(m["size"]))}
			d = infodownloader.New(p)
			obs = append(obs, fmt.Sprintf("len=%d done=%s rle=%s", len(d.Bytes), b01(d.Done()), idlRLE(d.Bytes)))
		case "req":
			if d == nil {
				obs = append(obs, "nostate")
				continue
			}
			before := len(p.sent)
			d.RequestBlocks(atoi(m["q"]))
			var s []string
			for _, x := range p.sent[before:] {
				s = append(s, fmt.Sprint(x))
			}
			obs = append(obs, fmt.Sprintf("sent=%s done=%s", joinOrDash(s), b01(d.Done())))
		case "got":
			if d == nil {
				obs = append(obs, "nostate")
				continue
			}
			err := d.GotBlock(uint32(atou(m["i"])), infodlData(m))
			r := "ok"
			if err != nil {
				switch {
				case strings.Contains(err.Error(), "invalid metadata piece index"):
					r = "err:index"
				case strings.Contains(err.Error(), "unrequested index"):
					r = "err:unrequested"
				case strings.Contains(err.Error(), "invalid size"):
					r = "err:size"
				case strings.Contains(err.Error(), "piece again"):
					r = "err:duplicate"
				default:
					r = "err:other"
				}
			}
			obs = append(obs, fmt.Sprintf("%s done=%s rle=%s", r, b01(d.Done()), idlRLE(d.Bytes)))
		default:
			obs = append(obs, "unknown-op")
		}
	}
	return obs
}

// genInfoDL steers with its own bookkeeping of what has been requested / answered (a guess of
// the implementation's state, used only to choose interesting ops).
func genInfoDL(r *Rng, n int, tier string) []Case {
	const bs = 16 * 1024
	var cases []Case
	for c := 0; c < n; c++ {
		var size int
		switch x := r.Intn(100); {
		case x < 45: // single small block
			size = r.Pick(1, 2, 3, 7, 40, r.Range(1, 90))
		case x < 85: // 2..3 blocks, sizes at block-size coincidences
			k := r.Range(1, 2)
			size = k*bs + r.Pick(0, 1, 2, 5, bs-1, bs, r.Range(1, 60))
			if size == bs && r.Chance(50) {
				size = bs + 1
			}
		default:
			k := r.Range(3, 5)
			size = k*bs + r.Pick(0, 1, bs-1, r.Range(1, 60))
		}
		nb := (size + bs - 1) / bs
		blen := func(i int) int {
			if i == nb-1 && size%bs != 0 {
				return size % bs
			}
			return bs
		}
		ops := []string{fmt.Sprintf("new size=%d", size)}
		next, pending := 0, 0
		answered := map[int]bool{}
		honest := r.Chance(30) // an honest peer: every requested index answered once, correct sizes
		steps := r.Range(2, 6+3*nb)
		fill := byte(r.Range(1, 255))
		for s := 0; s < steps; s++ {
			if r.Chance(35) || next == 0 && r.Chance(60) {
				q := r.Pick(-1, 0, 1, 1, 2, 2, 3, 5, 100)
				if honest {
					q = r.Pick(1, 2, 3, 100)
				}
				ops = append(ops, fmt.Sprintf("req q=%d", q))
				for next < nb && pending < q {
					next++
					pending++
				}
				continue
			}
			// choose an index
			var idx int
			var unanswered, ans []int
			for i := 0; i < next; i++ {
				if answered[i] {
					ans = append(ans, i)
				} else {
					unanswered = append(unanswered, i)
				}
			}
			x := r.Intn(100)
			switch {
			case honest || x < 55:
				if len(unanswered) == 0 {
					if honest {
						ops = append(ops, "req q=2")
						for next < nb && pending < 2 {
							next++
							pending++
						}
						continue
					}
					idx = r.Range(0, nb)
				} else {
					idx = unanswered[r.Intn(len(unanswered))]
				}
			case x < 72 && len(ans) > 0: // repeated answer
				idx = ans[r.Intn(len(ans))]
			case x < 85: // not yet requested, in range
				idx = r.Range(next, nb-1)
			default: // out of range
				idx = int(r.PickU(uint64(nb), uint64(nb+1), 1<<18, 1<<31, 1<<32-1))
			}
			ln := bs
			if idx < nb {
				ln = blen(idx)
			}
			if !honest && r.Chance(22) {
				ln = r.Pick(0, 1, ln-1, ln+1, bs, bs-1, bs+1, size%bs, size)
				if ln < 0 {
					ln = 0
				}
				if ln > 3*bs {
					ln = 3 * bs
				}
			}
			fill += byte(r.Range(1, 7))
			if fill == 0 {
				fill = 1
			}
			k := r.Pick(0, 1, ln/2, ln-1, ln, r.Range(0, ln))
			if k < 0 {
				k = 0
			}
			ops = append(ops, fmt.Sprintf("got i=%d len=%d a=%d k=%d b=%d", idx, ln, fill, k, byte(fill+101)|1))
			if idx < next && idx < nb && ln == blen(idx) {
				answered[idx] = true
				pending--
			}
		}
		cases = append(cases, Case{ID: fmt.Sprintf("infodl-%d", c+1), Ops: ops})
	}
	return cases
}
