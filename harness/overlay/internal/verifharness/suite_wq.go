//go:build verif

package main

import (
	"fmt"
	"net"
	"strings"
	"time"

	"github.com/cenkalti/rain/v2/internal/cachedpiece"
	"github.com/cenkalti/rain/v2/internal/filesection"
	"github.com/cenkalti/rain/v2/internal/logger"
	"github.com/cenkalti/rain/v2/internal/peerconn/peerwriter"
	"github.com/cenkalti/rain/v2/internal/peerprotocol"
	"github.com/cenkalti/rain/v2/internal/piece"
	"github.com/cenkalti/rain/v2/internal/piececache"
)

// Suite wq (C03; the queue bound also serves C17): the real PeerWriter (Run loop + messageWriter) over a
// gated connection; piece data comes from the real CachedPiece over the real Cache over a memory file.
//
// The connection's Write blocks until the harness releases it, so the writer goroutine is busy between
// `pump`s and every enqueue / cancel is processed by the Run loop alone (deterministic, and the queue can
// be inspected). When the writer would become idle the harness feeds it a sentinel `have 0xFFFFFFFF`.
//
//   op: open max=<maxQueuedRequests> fast=<0|1> pl=<piece length> rs=<cache block> cmax=<cache size>
//   op: piece i=<index> b=<begin> l=<length>      (PeerWriter.SendPiece; data of piece i is wqByte(i, off);
//                                                  for i=7 the data source returns a disk error instead)
//   op: cancel i= b= l=                           (PeerWriter.CancelRequest)
//   op: choke | unchoke | have i=<n> | reject i= b= l=     (PeerWriter.SendMessage)
//   op: pump                                      (let the blocked Write return; the writer takes the next message)
//   obs: [sent=<hex> ] w=<hex of the frame now blocked in Write | closed> q=<queue> n=<currentQueuedRequests>

const wqSentinel = 0xFFFFFFFF

func init() {
	register(&Suite{Name: "wq", Gen: genWQ, Exec: execWQ})
}

func wqByte(i, off int) byte { return byte((3 + i*31 + off*7 + off/5) % 256) }

type wqConn struct {
	startC   chan []byte
	releaseC chan struct{}
	closedC  chan struct{}
}

type wqAddr struct{}

func (wqAddr) Network() string { return "verif" }
func (wqAddr) String() string  { return "verif" }

func (c *wqConn) Read(b []byte) (int, error) { <-c.closedC; return 0, net.ErrClosed }
func (c *wqConn) Write(b []byte) (int, error) {
	cp := append([]byte(nil), b...)
	select {
	case c.startC <- cp:
	case <-c.closedC:
		return 0, net.ErrClosed
	}
	select {
	case <-c.releaseC:
		return len(b), nil
	case <-c.closedC:
		return 0, net.ErrClosed
	}
}
func (c *wqConn) Close() error {
	select {
	case <-c.closedC:
	default:
		close(c.closedC)
	}
	return nil
}
func (c *wqConn) LocalAddr() net.Addr                { return wqAddr{} }
func (c *wqConn) RemoteAddr() net.Addr               { return wqAddr{} }
func (c *wqConn) SetDeadline(t time.Time) error      { return nil }
func (c *wqConn) SetReadDeadline(t time.Time) error  { return nil }
func (c *wqConn) SetWriteDeadline(t time.Time) error { return nil }

// wqFailingIndex: requests for this piece index get a data source whose read fails.
const wqFailingIndex = 7

// wqFailingDisk is piece data whose read fails with an error other than io.EOF.
type wqFailingDisk struct{}

func (wqFailingDisk) ReadAt(p []byte, off int64) (int, error) { return 0, net.ErrClosed }

type wqWorld struct {
	pw      *peerwriter.PeerWriter
	conn    *wqConn
	cache   *piececache.Cache
	rs      int64
	pl      int
	pieces  map[uint32]*piece.Piece
	current []byte // frame blocked in Write, nil = writer gone
	dead    bool
	stopC   chan struct{}
}

func wqOpen(m map[string]string) *wqWorld {
	logger.Disable()
	w := &wqWorld{rs: atoi64(m["rs"]), pl: atoi(m["pl"]), pieces: map[uint32]*piece.Piece{}, stopC: make(chan struct{})}
	if w.rs <= 0 {
		w.rs = 16
	}
	w.cache = piececache.New(atoi64(m["cmax"]), time.Hour, 1)
	w.conn = &wqConn{startC: make(chan []byte), releaseC: make(chan struct{}), closedC: make(chan struct{})}
	w.pw = peerwriter.New(w.conn, logger.New("verif"), atoi(m["max"]), m["fast"] == "1", nil)
	go w.pw.Run()
	go func() { // BlockUploaded events must be consumed or the writer blocks
		for {
			select {
			case <-w.pw.Messages():
			case <-w.stopC:
				return
			}
		}
	}()
	w.feedSentinel()
	return w
}

// waitWrite waits until the writer goroutine is blocked in Write (or has gone).
func (w *wqWorld) waitWrite() {
	select {
	case b := <-w.conn.startC:
		w.current = b
	case <-w.conn.closedC:
		w.current = nil
		w.dead = true
	case <-time.After(20 * time.Second):
		panic("verif: writer did not start a write")
	}
}

func (w *wqWorld) feedSentinel() {
	w.pw.SendMessage(peerprotocol.HaveMessage{Index: wqSentinel})
	w.waitWrite()
}

func (w *wqWorld) barrier() {
	w.pw.CancelRequest(peerprotocol.CancelMessage{RequestMessage: peerprotocol.RequestMessage{Index: wqSentinel, Begin: wqSentinel, Length: wqSentinel}})
}

func (w *wqWorld) state() string {
	w.barrier()
	items, n := w.pw.VerifQueue()
	cur := "closed"
	if !w.dead {
		cur = hexs(w.current)
	}
	return fmt.Sprintf("w=%s q=%s n=%d", cur, joinOrDash(items), n)
}

func (w *wqWorld) pieceFor(i uint32) *piece.Piece {
	if p, ok := w.pieces[i]; ok {
		return p
	}
	data := make([]byte, w.pl)
	for k := range data {
		data[k] = wqByte(int(i), k)
	}
	p := &piece.Piece{Index: i, Length: uint32(w.pl), Done: true,
		Data: filesection.Piece{{File: &rpMemFile{b: data}, Offset: 0, Length: int64(w.pl)}}}
	w.pieces[i] = p
	return p
}

func (w *wqWorld) close() {
	w.pw.Stop()
	w.conn.Close()
	<-w.pw.Done()
	close(w.stopC)
	w.cache.Close()
}

func execWQ(ops []string) []string {
	var obs []string
	var w *wqWorld
	defer func() {
		if w != nil {
			w.close()
		}
	}()
	for _, op := range ops {
		m := kv(op)
		if m["_"] == "open" {
			if w != nil {
				w.close()
			}
			w = wqOpen(m)
			obs = append(obs, w.state())
			continue
		}
		if w == nil {
			obs = append(obs, "not-open")
			continue
		}
		req := peerprotocol.RequestMessage{Index: uint32(atou(m["i"])), Begin: uint32(atou(m["b"])), Length: uint32(atou(m["l"]))}
		switch m["_"] {
		case "piece":
			if req.Length > 16384 { // would panic inside the writer goroutine and kill the harness
				obs = append(obs, "refused-by-harness")
				continue
			}
			var id [20]byte
			if req.Index == wqFailingIndex {
				w.pw.SendPiece(req, wqFailingDisk{})
			} else {
				w.pw.SendPiece(req, cachedpiece.New(w.pieceFor(req.Index), w.cache, w.rs, id))
			}
			obs = append(obs, w.state())
		case "cancel":
			w.pw.CancelRequest(peerprotocol.CancelMessage{RequestMessage: req})
			obs = append(obs, w.state())
		case "choke":
			w.pw.SendMessage(peerprotocol.ChokeMessage{})
			obs = append(obs, w.state())
		case "unchoke":
			w.pw.SendMessage(peerprotocol.UnchokeMessage{})
			obs = append(obs, w.state())
		case "have":
			w.pw.SendMessage(peerprotocol.HaveMessage{Index: req.Index})
			obs = append(obs, w.state())
		case "reject":
			w.pw.SendMessage(peerprotocol.RejectMessage{RequestMessage: req})
			obs = append(obs, w.state())
		case "pump":
			if w.dead {
				obs = append(obs, "sent=- "+w.state())
				continue
			}
			w.barrier()
			items, _ := w.pw.VerifQueue()
			sent := hexs(w.current)
			w.conn.releaseC <- struct{}{}
			if len(items) > 0 {
				w.waitWrite()
			} else {
				w.feedSentinel()
			}
			obs = append(obs, "sent="+sent+" "+w.state())
		default:
			obs = append(obs, "unknown-op")
		}
	}
	return obs
}

func genWQ(r *Rng, n int, tier string) []Case {
	var cases []Case
	for i := 0; i < n; i++ {
		mx := r.Pick(0, 1, 2, 3, 5, 10, -1)
		pl := r.Pick(8, 24, 50)
		rs := r.Pick(1, 3, 8, 16, 32)
		ops := []string{fmt.Sprintf("open max=%d fast=%s pl=%d rs=%d cmax=%d", mx, b01(r.Bool()), pl, rs, r.Pick(0, rs, 3*rs, 1<<20))}
		var reqs []string // requests issued so far (for cancels / duplicates)
		k := r.Range(5, 40)
		for j := 0; j < k; j++ {
			newReq := func() string {
				b := r.Intn(pl)
				l := r.Range(1, pl-b)
				if r.Chance(4) {
					l = pl - b + r.Range(1, 3) // past the end: the disk read fails, the writer gives up
				}
				return fmt.Sprintf("i=%d b=%d l=%d", r.Intn(3), b, l)
			}
			switch x := r.Intn(100); {
			case x < 40:
				q := newReq()
				if len(reqs) > 0 && r.Chance(25) {
					q = reqs[r.Intn(len(reqs))] // duplicate of an earlier request
				}
				reqs = append(reqs, q)
				if r.Chance(3) {
					q = "i=7" + q[3:]
				}
				ops = append(ops, "piece "+q)
			case x < 55:
				q := newReq()
				if len(reqs) > 0 && r.Chance(85) {
					q = reqs[r.Intn(len(reqs))]
				}
				ops = append(ops, "cancel "+q)
			case x < 62:
				ops = append(ops, "choke")
			case x < 66:
				ops = append(ops, "unchoke")
			case x < 70:
				ops = append(ops, fmt.Sprintf("have i=%d", r.Intn(100)))
			case x < 73:
				ops = append(ops, "reject "+newReq())
			default:
				ops = append(ops, "pump")
			}
		}
		for j := r.Range(0, 6); j > 0; j-- {
			ops = append(ops, "pump")
		}
		cases = append(cases, Case{ID: fmt.Sprintf("wq-%d", i+1), Ops: ops})
	}
	return cases
}

var _ = strings.Join
