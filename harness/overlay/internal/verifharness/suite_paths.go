//go:build verif

package main

import (
	"fmt"
	"os"
	"path/filepath"
	"sort"
	"strings"

	"github.com/cenkalti/rain/v2/internal/allocator"
	"github.com/cenkalti/rain/v2/internal/metainfo"
	"github.com/cenkalti/rain/v2/internal/storage/filestorage"
	"github.com/cenkalti/rain/v2/torrent"
)

// Suite paths (C07): adversarial names / path components through the real NewInfo, the real
// filepath functions the model re-implements, and the real allocator + filestorage in a sandbox.
//
// op : info …                      obs: reject:<class> | ok paths=<hex>:<pad>,…
// op : clean s=<hex>               obs: <hex>                    (metainfo.cleanName)
// op : dotdot s=<hex>              obs: 0|1                      (strings.TrimSpace(s) == "..")
// op : fclean p=<hex>              obs: <hex>                    (filepath.Clean)
// op : fjoin parts=<hex>,…         obs: <hex>                    (filepath.Join)
// op : store incl=<0|1> id=<hex> + the keys of info
//                                  obs: reject:<class> | stored root=<hex> created=<hex>,… err=<0|1>
//      created = regular files found under the sandbox afterwards, relative to the sandbox,
//      sorted; root = data directory of the torrent relative to the sandbox.
// Empty strings in lists are written `_`.

func init() {
	register(&Suite{Name: "paths", Gen: genPaths, Exec: execPaths})
}

func hexE(s string) string {
	if s == "" {
		return "_"
	}
	return hexs([]byte(s))
}

func unhexE(s string) string {
	if s == "_" || s == "-" || s == "" {
		return ""
	}
	return string(unhex(s))
}

func walkFiles(root string) []string {
	var out []string
	_ = filepath.Walk(root, func(p string, fi os.FileInfo, err error) error {
		if err != nil || fi.IsDir() {
			return nil
		}
		rel, _ := filepath.Rel(root, p)
		out = append(out, rel)
		return nil
	})
	sort.Strings(out)
	return out
}

func storeOp(m map[string]string) string {
	info, class, _, _, _ := runInfoOp(m)
	if info == nil {
		return "reject:" + class
	}
	sandbox, err := os.MkdirTemp("", "verif-paths-")
	if err != nil {
		return "sandbox-error"
	}
	defer os.RemoveAll(sandbox)
	sandbox, _ = filepath.EvalSymlinks(sandbox)
	dataDir := filepath.Join(sandbox, "outer", "data")
	_ = os.MkdirAll(dataDir, 0o755)
	root := torrent.VerifDataDir(dataDir, unhexE(m["id"]), m["incl"] == "1")
	sto, err := filestorage.New(root, 0o644)
	if err != nil {
		return "storage-error"
	}
	a := allocator.New()
	progressC := make(chan allocator.Progress, len(info.Files)+1)
	resultC := make(chan *allocator.Allocator, 1)
	a.Run(info, sto, progressC, resultC)
	res := <-resultC
	for _, f := range res.Files {
		if f.Storage != nil {
			_ = f.Storage.Close()
		}
	}
	var created []string
	for _, p := range walkFiles(sandbox) {
		created = append(created, hexE(p))
	}
	relRoot, _ := filepath.Rel(sandbox, root)
	return fmt.Sprintf("stored root=%s created=%s err=%s", hexE(relRoot), joinOrDash(created), b01(res.Error != nil))
}

func execPaths(ops []string) []string {
	var obs []string
	for _, op := range ops {
		m := kv(op)
		switch m["_"] {
		case "info":
			info, class, _, _, _ := runInfoOp(m)
			if info == nil {
				obs = append(obs, "reject:"+class)
				continue
			}
			var ps []string
			for _, f := range info.Files {
				ps = append(ps, hexE(f.Path)+":"+b01(f.Padding))
			}
			obs = append(obs, "ok paths="+joinOrDash(ps))
		case "clean":
			obs = append(obs, hexE(metainfo.VerifCleanName(unhexE(m["s"]))))
		case "dotdot":
			obs = append(obs, b01(strings.TrimSpace(unhexE(m["s"])) == ".."))
		case "fclean":
			obs = append(obs, hexE(filepath.Clean(unhexE(m["p"]))))
		case "fjoin":
			var parts []string
			for _, p := range commaList(m["parts"]) {
				parts = append(parts, unhexE(p))
			}
			obs = append(obs, hexE(filepath.Join(parts...)))
		case "store":
			obs = append(obs, storeOp(m))
		default:
			obs = append(obs, "unknown-op")
		}
	}
	return obs
}

// ---------------------------------------------------------------------------------------------

var nastyAtoms = []string{
	"..", ".", "", " .. ", "\t..\n", ".. ", "　..", " .. ", "..\u0085", " ..", ".. .", ". .",
	"a/../b", "/abs", "/", "//", "a/b", "a\\b", "..\\x", "...", "..a", "a..", "../", "/..", "../..", "./..", "a/..",
	"\xff", "\xc3", "a\xe2\x82", "\xe2\x82\xac", "\xed\xa0\x80", "\xf4\x90\x80\x80", "\xc0\xaf", "\xe0\x80\xaf", "\xc0\xae\xc0\xae",
	".\xff.", "\xff..", "..\xff", ".\xc3.", "\xef\xbf\xbd", "a\x00b", "\x00", "_____padding_file_0", "a_b", "a", "b", "A",
	"con", "nul.txt", "a.", "a ", " a", "~", "$HOME", "%2e%2e", "‮", "․․", "．．", "‥",
}

func longName(r *Rng) string {
	n := r.Pick(250, 253, 254, 255, 256, 257, 258, 300, 511, 600)
	ext := []string{"", ".txt", ".", ".é", ".\xff", "." + strings.Repeat("x", 252), "." + strings.Repeat("y", 254), "." + strings.Repeat("z", 255), "." + strings.Repeat("é", 126), ".a/b"}[r.Intn(10)]
	unit := []string{"a", "é", "€", "😀", "a\xff", "/", ".", "é/"}[r.Intn(8)]
	var sb strings.Builder
	for sb.Len()+len(ext) < n {
		if r.Chance(5) {
			sb.WriteString([]string{"a", "é", "€", "😀", "\xff", "\xe2\x82"}[r.Intn(6)])
		} else {
			sb.WriteString(unit)
		}
	}
	return sb.String() + ext
}

func randAtom(r *Rng) string {
	switch r.Intn(10) {
	case 0, 1, 2, 3:
		return nastyAtoms[r.Intn(len(nastyAtoms))]
	case 4:
		if r.Chance(35) {
			// longer than the 255 byte limit and made of a dot, blanks and an "extension" that is a dot (or a
			// short one): what is left after cutting and trimming may be "." or ".."
			return "." + strings.Repeat(" ", r.Pick(252, 253, 254, 255, 256, 300)) + r.Pick2(".", ".", "..", ".a", " .")
		}
		return longName(r)
	case 5: // random bytes from a small alphabet
		al := []byte{'.', '.', '/', ' ', 'a', 0xff, 0xc2, 0xa0, 0xe2, 0x80, 0x80, '\t', '_'}
		n := r.Range(0, 5)
		b := make([]byte, n)
		for i := range b {
			b[i] = al[r.Intn(len(al))]
		}
		return string(b)
	default:
		return []string{"a", "b", "c", "dir", "x.txt", "d0", "f1"}[r.Intn(7)]
	}
}

func genPathsInfo(r *Rng, small bool) gInfo {
	g := gInfo{Mode: "info", UTF8: r.Bool(), Pad: r.Bool()}
	if r.Chance(20) {
		g.Mode, g.UTF8, g.Pad = "meta", true, true
	}
	nfiles := r.Pick(0, 1, 2, 2, 3, 4)
	pl := int64(16)
	total := int64(0)
	var files []gFile
	for i := 0; i < nfiles; i++ {
		l := int64(r.Range(0, 20))
		total += l
		f := gFile{Len: ifv(l)}
		for k := r.Pick(0, 1, 1, 1, 2, 2, 3); k > 0; k-- {
			f.Path = append(f.Path, sfv(randAtom(r)))
		}
		if r.Chance(10) {
			f.HasPU = true
			for k := r.Pick(0, 1, 2); k > 0; k-- {
				f.PathU = append(f.PathU, sfv(randAtom(r)))
			}
		}
		if r.Chance(15) {
			f.Attr = sfv("p")
		}
		files = append(files, f)
	}
	var entries []string
	if nfiles == 0 {
		total = int64(r.Range(1, 40))
		entries = append(entries, "length:"+ifv(total))
	} else {
		if total == 0 {
			files[0].Len = ifv(5)
			total = 5
		}
		entries = append(entries, "files:"+filesFV(files))
	}
	np := (total + pl - 1) / pl
	name := randAtom(r)
	if r.Chance(5) {
		entries = append(entries, "nameu:"+sfv(randAtom(r)))
	}
	entries = append(entries, "name:"+sfv(name), "pl:"+ifv(pl), fmt.Sprintf("pieces:n%d", np*20))
	g.Entries = entries
	return g
}

func genPaths(r *Rng, n int, tier string) []Case {
	var cases []Case
	id := 0
	add := func(ops ...string) {
		id++
		cases = append(cases, Case{ID: fmt.Sprintf("paths-%d", id), Ops: ops})
	}
	// every atom through every function, and every pair through Join
	for _, a := range nastyAtoms {
		add("clean s="+hexE(a), "dotdot s="+hexE(a), "fclean p="+hexE(a))
	}
	for i, a := range nastyAtoms {
		for j, b := range nastyAtoms {
			if (i+j)%3 == 0 || tier == "thorough" {
				add("fjoin parts="+hexE(a)+","+hexE(b), "fclean p="+hexE(a+"/"+b))
			}
		}
	}
	for i := 0; i < n; i++ {
		switch r.Intn(10) {
		case 0:
			s := randAtom(r) + randAtom(r)
			add("clean s="+hexE(s), "dotdot s="+hexE(s))
		case 1:
			s := longName(r)
			add("clean s=" + hexE(s))
		case 2:
			var parts []string
			for k := r.Range(1, 4); k > 0; k-- {
				parts = append(parts, hexE(randAtom(r)))
			}
			add("fjoin parts="+strings.Join(parts, ","), "fclean p="+hexE(strings.Join(func() []string {
				var o []string
				for _, p := range parts {
					o = append(o, unhexE(p))
				}
				return o
			}(), "/")))
		case 3, 4:
			g := genPathsInfo(r, true)
			op := g.Op()
			incl := b01(r.Bool())
			tid := []string{"dG9ycmVudElE", "id1", "x"}[r.Intn(3)]
			add(strings.Replace(op, "info ", "store incl="+incl+" id="+hexE(tid)+" ", 1))
		default:
			add(genPathsInfo(r, true).Op())
		}
	}
	return cases
}
