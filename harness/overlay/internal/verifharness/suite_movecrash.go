//go:build verif

package main

import (
	"crypto/sha1"
	"fmt"
	"os"
	"path/filepath"
	"time"

	"github.com/cenkalti/rain/v2/internal/logger"
	"github.com/cenkalti/rain/v2/internal/resumer/boltdbresumer"
	"github.com/cenkalti/rain/v2/torrent"
	"github.com/zeebo/bencode"
)

// Suite movecrash (C05): the receiving side of a torrent move (RPC handler move-torrent) is fed the id, the
// sender's resume record with a full bitfield and only a prefix of the data; then the sender dies. At that
// instant, and afterwards, the receiver's resume database must not hold a record that claims pieces.
//
// op : move pl=<n> len=<file length> cut=<bytes of the tar stream that arrive>
// obs: during=<-1|n> after=<-1|n> http=<code>      (-1 = no record; n = bytes of bitfield in the record)

func init() {
	register(&Suite{Name: "movecrash", Gen: genMoveCrash, Exec: execMoveCrash})
}

func genMoveCrash(r *Rng, n int, tier string) []Case {
	var cases []Case
	for i := 0; i < n; i++ {
		pl := 16384
		ln := r.Pick(1, 16384, 40000, 70000)
		tarLen := 512 + (ln+511)/512*512 + 1024
		cut := r.Pick(0, 100, 512, 512+ln/2, 512+ln-1, 512+ln, tarLen-1)
		cases = append(cases, Case{ID: fmt.Sprintf("movecrash-%d", i+1), Ops: []string{
			fmt.Sprintf("move pl=%d len=%d cut=%d", pl, ln, cut)}})
	}
	return cases
}

func execMoveCrash(ops []string) []string {
	var obs []string
	for _, op := range ops {
		obs = append(obs, moveCrashOne(kv(op)))
	}
	return obs
}

func moveCrashOne(m map[string]string) string {
	logger.Disable()
	pl, ln := atoi(m["pl"]), atoi(m["len"])
	root, err := os.MkdirTemp("", "verifmove")
	if err != nil {
		return "error:tmp"
	}
	defer os.RemoveAll(root)
	cfg := torrent.DefaultConfig
	cfg.Database = filepath.Join(root, "session.db")
	cfg.DataDir = filepath.Join(root, "data")
	cfg.RPCEnabled = false
	cfg.DHTEnabled = false
	cfg.Host = "127.0.0.1"
	cfg.ResumeOnStartup = false
	cfg.TrackerStopTimeout = 50 * time.Millisecond
	s, err := torrent.NewSession(cfg)
	if err != nil {
		return "error:session"
	}
	defer s.Close()
	content := NewRng(uint64(ln), "move").Bytes(ln)
	var pieces []byte
	for off := 0; off < ln; off += pl {
		h := sha1.Sum(content[off:min(off+pl, ln)])
		pieces = append(pieces, h[:]...)
	}
	ib, _ := bencode.EncodeBytes(map[string]interface{}{"name": "f", "piece length": pl, "pieces": pieces, "length": ln})
	ih := sha1.Sum(ib)
	np := (ln + pl - 1) / pl
	bf := make([]byte, (np+7)/8)
	for i := 0; i < np; i++ {
		bf[i/8] |= 0x80 >> uint(i%8)
	}
	spec := &boltdbresumer.Spec{InfoHash: ih[:], Name: "f", Info: ib, Bitfield: bf, AddedAt: time.Now(), Version: boltdbresumer.LatestVersion}
	tb := torrent.VerifTar([]string{"f"}, [][]byte{content})
	during, after, code := torrent.VerifMoveInterrupted(s, "moved-torrent-id-0001", spec, tb, atoi(m["cut"]))
	return fmt.Sprintf("during=%d after=%d http=%d", during, after, code)
}
