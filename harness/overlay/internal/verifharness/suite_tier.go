//go:build verif

package main

import (
	"context"
	"errors"
	"fmt"
	"strconv"

	"github.com/cenkalti/rain/v2/internal/tracker"
)

// Suite tier (C16): the real tracker.Tier with scripted member trackers.
//   tier n=<n>            -> ok
//   ann ok=<0|1>          -> hit=<i> url=<j>
//   begin id=<x>          -> hit=<i>        (announce started in a goroutine, blocked inside member i)
//   end id=<x> ok=<0|1>   -> url=<j>        (released with the outcome; URL() afterwards)

func init() {
	register(&Suite{Name: "tier", Gen: genTier, Exec: execTier})
}

type tierCallKey struct{}

type tierCall struct {
	entered chan int
	release chan bool
	done    chan struct{}
}

type tierMember struct {
	idx   int
	seqOK *bool
	hits  *[]int
}

var errTierScripted = errors.New("scripted failure")

func (m *tierMember) Announce(ctx context.Context, _ tracker.AnnounceRequest) (*tracker.AnnounceResponse, error) {
	ok := *m.seqOK
	if c, _ := ctx.Value(tierCallKey{}).(*tierCall); c != nil {
		c.entered <- m.idx
		ok = <-c.release
	} else {
		*m.hits = append(*m.hits, m.idx)
	}
	if ok {
		return &tracker.AnnounceResponse{}, nil
	}
	return nil, errTierScripted
}

func (m *tierMember) URL() string { return strconv.Itoa(m.idx) }

func genTier(r *Rng, n int, tier string) []Case {
	var cases []Case
	id := 0
	add := func(ops []string) {
		id++
		cases = append(cases, Case{ID: fmt.Sprintf("tier-%d", id), Ops: ops})
	}
	// Exhaustive: sizes 1..5 x every success/failure pattern of length 12 (all shorter patterns are prefixes).
	for size := 1; size <= 5; size++ {
		for pat := 0; pat < 1<<12; pat++ {
			ops := []string{fmt.Sprintf("tier n=%d", size)}
			for b := 0; b < 12; b++ {
				ops = append(ops, "ann ok="+b01(pat>>b&1 == 1))
			}
			add(ops)
		}
	}
	// Generated: larger tiers, long mostly-failing histories, interleaved concurrent announces.
	for i := 0; i < n; i++ {
		size := r.Pick(1, 2, 2, 3, 3, 4, 5, 7, 8, 13, r.Range(1, 40))
		ops := []string{fmt.Sprintf("tier n=%d", size)}
		steps := r.Range(1, 4*size+10)
		failPct := r.Pick(100, 95, 80, 50, 20)
		conc := r.Chance(40)
		var open []string
		next := 0
		for s := 0; s < steps; s++ {
			switch {
			case conc && r.Chance(25) && len(open) < 4:
				next++
				idn := fmt.Sprintf("c%d", next)
				open = append(open, idn)
				ops = append(ops, "begin id="+idn)
			case len(open) > 0 && r.Chance(35):
				k := r.Intn(len(open))
				ops = append(ops, fmt.Sprintf("end id=%s ok=%s", open[k], b01(!r.Chance(failPct))))
				open = append(open[:k], open[k+1:]...)
			default:
				ops = append(ops, "ann ok="+b01(!r.Chance(failPct)))
			}
		}
		for _, idn := range open {
			ops = append(ops, fmt.Sprintf("end id=%s ok=%s", idn, b01(!r.Chance(failPct))))
		}
		add(ops)
	}
	return cases
}

func execTier(ops []string) []string {
	var obs []string
	var tr *tracker.Tier
	seqOK := true
	var hits []int
	calls := map[string]*tierCall{}
	defer func() {
		// never leave goroutines behind, also when a case is cut short by the shrinker
		for _, c := range calls {
			c.release <- true
			<-c.done
		}
	}()
	for _, op := range ops {
		m := kv(op)
		switch m["_"] {
		case "tier":
			n := atoi(m["n"])
			members := make([]tracker.Tracker, n)
			for i := range members {
				members[i] = &tierMember{idx: i, seqOK: &seqOK, hits: &hits}
			}
			// NewTier shuffles the members; the index machine is the same, so build the value directly.
			tr = &tracker.Tier{Trackers: members}
			obs = append(obs, "ok")
		case "ann":
			if tr == nil {
				obs = append(obs, "no-tier")
				continue
			}
			seqOK = m["ok"] == "1"
			hits = hits[:0]
			_, err := tr.Announce(context.Background(), tracker.AnnounceRequest{})
			if (err == nil) != seqOK || len(hits) != 1 {
				obs = append(obs, fmt.Sprintf("unexpected err=%v hits=%v", err, hits))
				continue
			}
			obs = append(obs, fmt.Sprintf("hit=%d url=%s", hits[0], tr.URL()))
		case "begin":
			if tr == nil || calls[m["id"]] != nil {
				obs = append(obs, "bad-begin")
				continue
			}
			c := &tierCall{entered: make(chan int), release: make(chan bool), done: make(chan struct{})}
			calls[m["id"]] = c
			ctx := context.WithValue(context.Background(), tierCallKey{}, c)
			go func() {
				defer close(c.done)
				_, _ = tr.Announce(ctx, tracker.AnnounceRequest{})
			}()
			obs = append(obs, fmt.Sprintf("hit=%d", <-c.entered))
		case "end":
			c := calls[m["id"]]
			if c == nil {
				obs = append(obs, "no-such-id")
				continue
			}
			delete(calls, m["id"])
			c.release <- m["ok"] == "1"
			<-c.done
			obs = append(obs, "url="+tr.URL())
		default:
			obs = append(obs, "bad-op")
		}
	}
	return obs
}
