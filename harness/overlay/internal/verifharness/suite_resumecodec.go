//go:build verif

package main

import (
	"encoding/hex"
	"fmt"
	"os"
	"path/filepath"
	"sort"
	"strconv"
	"strings"
	"time"

	"github.com/cenkalti/rain/v2/internal/resumer/boltdbresumer"
	"go.etcd.io/bbolt"
)

// Suite resume-codec (C14): the real boltdbresumer.Write on a fresh bbolt file, then (a) the raw
// key/value pairs of the bucket and (b) the Spec that boltdbresumer.Read returns.
//
// op : rw ih=<hex> port=<int> name=<hex> trk=<hex+hex/hex> ws=<hex+hex> pe=<hex+hex> info=<hex> bf=<hex>
//         at=<unix sec>.<nsec> dl= ul= wa= se=<ns> st= sad= sam= ccr= seq= ver=
// obs: kv=<key>:<value>,...  | rd=<the fields in op syntax> | rd=err:<msg>
// Values are hex, except added_at = T<unix sec>[.<fraction digits as stored>] and seeded_for = D<ns>:
// calendar rendering (RFC 3339) and Duration.String/ParseDuration are Go's `time` package and are not
// modelled; the harness parses those two texts back with `time` and prints the number.

func init() {
	register(&Suite{Name: "resume-codec", Gen: genResumeCodec, Exec: execResumeCodec})
}

func hexList(xs []string) string {
	if len(xs) == 0 {
		return "-"
	}
	var p []string
	for _, x := range xs {
		if x == "" {
			p = append(p, "e")
		} else {
			p = append(p, hex.EncodeToString([]byte(x)))
		}
	}
	return strings.Join(p, "+")
}

func unhexList(s string) []string {
	if s == "" || s == "-" {
		return nil
	}
	var out []string
	for _, p := range strings.Split(s, "+") {
		if p == "e" {
			out = append(out, "")
		} else {
			out = append(out, string(unhex(p)))
		}
	}
	return out
}

func hexTiers(t [][]string) string {
	if len(t) == 0 {
		return "-"
	}
	var p []string
	for _, ti := range t {
		if len(ti) == 0 {
			p = append(p, "n")
		} else {
			p = append(p, hexList(ti))
		}
	}
	return strings.Join(p, "/")
}

func unhexTiers(s string) [][]string {
	if s == "" || s == "-" {
		return nil
	}
	var out [][]string
	for _, p := range strings.Split(s, "/") {
		if p == "n" {
			out = append(out, []string{})
		} else {
			out = append(out, unhexList(p))
		}
	}
	return out
}

func specString(s *boltdbresumer.Spec) string {
	return fmt.Sprintf("ih=%s port=%d name=%s trk=%s ws=%s pe=%s info=%s bf=%s at=%d.%d dl=%d ul=%d wa=%d se=%d st=%s sad=%s sam=%s ccr=%s seq=%s ver=%d",
		hexs(s.InfoHash), s.Port, hexs([]byte(s.Name)), hexTiers(s.Trackers), hexList(s.URLList), hexList(s.FixedPeers),
		hexs(s.Info), hexs(s.Bitfield), s.AddedAt.Unix(), s.AddedAt.Nanosecond(), s.BytesDownloaded, s.BytesUploaded, s.BytesWasted,
		int64(s.SeededFor), b01(s.Started), b01(s.StopAfterDownload), b01(s.StopAfterMetadata), b01(s.CompleteCmdRun), b01(s.Sequential), s.Version)
}

func specOfOp(m map[string]string) *boltdbresumer.Spec {
	at := strings.SplitN(m["at"], ".", 2)
	var nsec int64
	if len(at) > 1 {
		nsec = atoi64(at[1])
	}
	return &boltdbresumer.Spec{
		InfoHash: unhex(m["ih"]), Port: int(atoi64(m["port"])), Name: string(unhex(m["name"])),
		Trackers: unhexTiers(m["trk"]), URLList: unhexList(m["ws"]), FixedPeers: unhexList(m["pe"]),
		Info: unhex(m["info"]), Bitfield: unhex(m["bf"]),
		AddedAt:         time.Unix(atoi64(at[0]), nsec).UTC(),
		BytesDownloaded: atoi64(m["dl"]), BytesUploaded: atoi64(m["ul"]), BytesWasted: atoi64(m["wa"]),
		SeededFor: time.Duration(atoi64(m["se"])),
		Started:   m["st"] == "1", StopAfterDownload: m["sad"] == "1", StopAfterMetadata: m["sam"] == "1",
		CompleteCmdRun: m["ccr"] == "1", Sequential: m["seq"] == "1", Version: atoi(m["ver"]),
	}
}

// canonTime renders a stored added_at text as T<unix sec>[.<fraction digits>].
func canonTime(v string) string {
	frac := ""
	base := v
	if i := strings.IndexByte(v, '.'); i >= 0 {
		j := i + 1
		for j < len(v) && v[j] >= '0' && v[j] <= '9' {
			j++
		}
		frac = v[i+1 : j]
		base = v[:i] + v[j:]
	}
	t, err := time.Parse(time.RFC3339, base)
	if err != nil {
		return "T?" + hex.EncodeToString([]byte(v))
	}
	if frac != "" {
		return fmt.Sprintf("T%d.%s", t.Unix(), frac)
	}
	return fmt.Sprintf("T%d", t.Unix())
}

func execResumeCodec(ops []string) []string {
	dir, err := os.MkdirTemp("", "verif-resume-")
	if err != nil {
		panic(err)
	}
	defer os.RemoveAll(dir)
	db, err := bbolt.Open(filepath.Join(dir, "r.db"), 0600, &bbolt.Options{Timeout: time.Second, NoSync: true})
	if err != nil {
		panic(err)
	}
	defer db.Close()
	bucket := []byte("torrents")
	res, err := boltdbresumer.New(db, bucket)
	if err != nil {
		panic(err)
	}
	var out []string
	for i, op := range ops {
		m := kv(op)
		if m["_"] != "rw" {
			out = append(out, "err:badop")
			continue
		}
		id := fmt.Sprintf("id%d", i)
		spec := specOfOp(m)
		if err := res.Write(id, spec); err != nil {
			out = append(out, "err:write:"+sanitize(err.Error()))
			continue
		}
		var kvs []string
		_ = db.View(func(tx *bbolt.Tx) error {
			b := tx.Bucket(bucket).Bucket([]byte(id))
			return b.ForEach(func(k, v []byte) error {
				val := hexs(v)
				switch string(k) {
				case "added_at":
					val = canonTime(string(v))
				case "seeded_for":
					if d, err := time.ParseDuration(string(v)); err == nil {
						val = "D" + strconv.FormatInt(int64(d), 10)
					} else {
						val = "D?" + hex.EncodeToString(v)
					}
				}
				kvs = append(kvs, string(k)+":"+val)
				return nil
			})
		})
		sort.Strings(kvs)
		rd := ""
		got, err := res.Read(id)
		if err != nil {
			rd = "err:" + sanitize(err.Error())
		} else {
			rd = specString(got)
		}
		out = append(out, "kv="+strings.Join(kvs, ",")+" | rd="+strings.ReplaceAll(rd, " ", ";"))
	}
	return out
}

func genResumeCodec(r *Rng, n int, tier string) []Case {
	var cases []Case
	i64 := func() int64 {
		return int64(r.PickU(0, 1, 9, 10, 16384, 1<<32, 1<<40, 1<<63-1, uint64(r.U64()>>uint(r.Intn(63)))))
	}
	str := func() string {
		switch r.Intn(12) {
		case 0:
			return ""
		case 1:
			return "http://tracker.example/announce"
		case 2:
			return "udp://t.example:6969/a?b=1&c=<2>"
		case 3: // JSON specials and control characters
			return string([]byte{'"', '\\', '/', 0, 1, 8, 9, 10, 12, 13, 0x1f, 0x7f, '<', '>', '&', ' '})
		case 4: // valid multi-byte UTF-8 incl. U+2028/U+2029 and a 4-byte rune
			return "\u00e9\u4e16\u2028\u2029\U0001F600z"
		case 5: // invalid UTF-8
			return string([]byte{'a', 0xff, 'b', 0xc3, 0x28, 0xed, 0xa0, 0x80, 0x80})
		case 6:
			return "\\u0041\\n"
		}
		b := r.Bytes(r.Range(1, 8))
		if r.Chance(70) {
			for i := range b {
				b[i] = 0x20 + b[i]%0x5f
			}
		}
		return string(b)
	}
	list := func(max int) []string {
		var l []string
		for j, k := 0, r.Range(0, max); j < k; j++ {
			l = append(l, str())
		}
		return l
	}
	for i := 0; i < n; i++ {
		var ops []string
		for j, k := 0, r.Range(1, 3); j < k; j++ {
			s := &boltdbresumer.Spec{}
			s.InfoHash = r.Bytes(r.Pick(20, 20, 20, 20, 1, 19, 21))
			s.Port = int(r.PickU(0, 1, 80, 6881, 65535, 65536, 1<<31, 1<<62))
			if r.Chance(8) {
				s.Port = -s.Port
			}
			s.Name = str()
			for a, b := 0, r.Range(0, 3); a < b; a++ {
				s.Trackers = append(s.Trackers, list(3))
			}
			s.URLList = list(3)
			s.FixedPeers = list(2)
			s.Info = r.Bytes(r.Pick(0, 0, 1, 30))
			s.Bitfield = r.Bytes(r.Pick(0, 0, 1, 5))
			sec := int64(r.PickU(0, 1, 1700000000, 1790000000, 253402300799, 86399, 951782400))
			if r.Chance(10) {
				sec = -int64(r.PickU(1, 86400, 62135596800))
			}
			nsec := int64(r.PickU(0, 0, 1, 10, 500000000, 999999999, 123000000, 120, uint64(r.Intn(1000000000))))
			s.AddedAt = time.Unix(sec, nsec).UTC()
			s.BytesDownloaded, s.BytesUploaded, s.BytesWasted = i64(), i64(), i64()
			if r.Chance(8) {
				s.BytesWasted = -s.BytesWasted
			}
			s.SeededFor = time.Duration(int64(r.PickU(0, 1, 999, 1000, 1001, 999999, 1000000, 1500000, 999999999, 1000000000, 1000000001,
				59999999999, 60000000000, 3599999999999, 3600000000000, 86400000000001, 1<<63-1, r.U64()>>uint(r.Intn(63)))))
			if r.Chance(6) {
				s.SeededFor = -s.SeededFor
			}
			s.Started, s.StopAfterDownload, s.StopAfterMetadata = r.Bool(), r.Bool(), r.Bool()
			s.CompleteCmdRun, s.Sequential = r.Bool(), r.Bool()
			s.Version = r.Pick(0, 0, 1, 2, 3, 3, 7)
			ops = append(ops, "rw "+specString(s))
		}
		cases = append(cases, Case{ID: fmt.Sprintf("resume-codec-%d", i+1), Ops: ops})
	}
	return cases
}
