//go:build verif

package main

import (
	"archive/tar"
	"bytes"
	"fmt"
	"os"
	"path/filepath"
	"strings"

	"github.com/cenkalti/rain/v2/torrent"
)

// Suite tar (C07): the real readData (tar extraction of a torrent moved between sessions) on
// generated archives in a sandbox.
//
// op : tar incl=<0|1> id=<hex> dir=<plain|slash|dot> names=<hexE>,… types=<r|d|s|l>…
//      (one type letter per name: regular, directory, symlink, hard link)
// obs: badarchive | extracted root=<hexE> created=<hexE>,… err=<none|escape|other>
//      created = regular files + symlinks found under the sandbox afterwards, relative to it.

func init() {
	register(&Suite{Name: "tar", Gen: genTar, Exec: execTar})
}

func tarOp(m map[string]string) string {
	names := commaList(m["names"])
	types := m["types"]
	var buf bytes.Buffer
	tw := tar.NewWriter(&buf)
	for i, hn := range names {
		name := unhexE(hn)
		h := &tar.Header{Name: name, Mode: 0o644, Format: tar.FormatPAX}
		t := byte('r')
		if i < len(types) {
			t = types[i]
		}
		body := []byte("abc")
		switch t {
		case 'd':
			h.Typeflag, h.Mode, body = tar.TypeDir, 0o755, nil
		case 's':
			h.Typeflag, h.Linkname, body = tar.TypeSymlink, "../../../escape-target", nil
		case 'l':
			h.Typeflag, h.Linkname, body = tar.TypeLink, "../../../escape-target", nil
		default:
			h.Typeflag = tar.TypeReg
			h.Size = int64(len(body))
		}
		if err := tw.WriteHeader(h); err != nil {
			return "badarchive"
		}
		if body != nil {
			if _, err := tw.Write(body); err != nil {
				return "badarchive"
			}
		}
	}
	if err := tw.Close(); err != nil {
		return "badarchive"
	}
	sandbox, err := os.MkdirTemp("", "verif-tar-")
	if err != nil {
		return "sandbox-error"
	}
	defer os.RemoveAll(sandbox)
	sandbox, _ = filepath.EvalSymlinks(sandbox)
	dataDir := filepath.Join(sandbox, "outer", "dest")
	// a sibling whose name has the destination as a string prefix, and a file above
	_ = os.MkdirAll(filepath.Join(sandbox, "outer", "dest2"), 0o755)
	_ = os.MkdirAll(dataDir, 0o755)
	root := torrent.VerifDataDir(dataDir, unhexE(m["id"]), m["incl"] == "1")
	arg := root
	switch m["dir"] {
	case "slash":
		arg = root + "/"
	case "dot":
		arg = filepath.Dir(root) + "/./" + filepath.Base(root) + "/../" + filepath.Base(root)
	}
	err = torrent.VerifReadData(&buf, arg, 0o644)
	class := "none"
	if err != nil {
		class = "other"
		if strings.Contains(err.Error(), "escapes destination directory") {
			class = "escape"
		}
	}
	var created []string
	for _, p := range walkFiles(sandbox) {
		created = append(created, hexE(p))
	}
	relRoot, _ := filepath.Rel(sandbox, root)
	return fmt.Sprintf("extracted root=%s created=%s err=%s", hexE(relRoot), joinOrDash(created), class)
}

func execTar(ops []string) []string {
	var obs []string
	for _, op := range ops {
		m := kv(op)
		if m["_"] == "tar" {
			obs = append(obs, tarOp(m))
		} else {
			obs = append(obs, "unknown-op")
		}
	}
	return obs
}

var tarNames = []string{
	"a", "b", "dir/a", "dir/b", "dir/sub/c", "a/", "dir/", "./a", "a//b", "a/./b", "a/b/../c",
	"..", ".", "", "/", "../x", "../../x", "../../../x", "../dest/x", "../dest2/x", "../dest", "../dest2",
	"a/../../x", "a/../../dest/y", "a/../../dest2/y", "/etc/verif-x", "/tmp/verif-x", "//x", "dir/../../x",
	"..\\x", " ../x", "../ x", "\xff/../x", "..\xff/x", "\xc0\xae\xc0\xae/x", "%2e%2e/x", "a\\..\\..\\x", "...", ".../x", "..a/x",
	"dir/..", "dir/../..", "dir/../../dest", "x/../../dest/../dest2/z",
}

func genTar(r *Rng, n int, tier string) []Case {
	var cases []Case
	id := 0
	add := func(op string) {
		id++
		cases = append(cases, Case{ID: fmt.Sprintf("tar-%d", id), Ops: []string{op}})
	}
	for _, nm := range tarNames {
		for _, incl := range []string{"0", "1"} {
			add(fmt.Sprintf("tar incl=%s id=%s dir=plain names=%s types=r", incl, hexE("id1"), hexE(nm)))
		}
	}
	for i := 0; i < n; i++ {
		k := r.Range(1, 4)
		var names []string
		var types []byte
		for j := 0; j < k; j++ {
			var nm string
			switch r.Intn(5) {
			case 0, 1:
				nm = tarNames[r.Intn(len(tarNames))]
			case 2: // composed from atoms
				parts := []string{}
				for q := r.Range(1, 4); q > 0; q-- {
					parts = append(parts, []string{"..", ".", "", "a", "b", "dest", "dest2", "outer", "id1", "x", " ..", "..\xff"}[r.Intn(12)])
				}
				nm = strings.Join(parts, "/")
			case 3:
				nm = nastyAtoms[r.Intn(len(nastyAtoms))]
			default:
				nm = []string{"a", "b", "c", "dir/a", "dir/b"}[r.Intn(5)]
			}
			if strings.IndexByte(nm, 0) >= 0 {
				nm = strings.ReplaceAll(nm, "\x00", "0")
			}
			names = append(names, hexE(nm))
			types = append(types, "rrrrrrdsl"[r.Intn(9)])
		}
		add(fmt.Sprintf("tar incl=%s id=%s dir=%s names=%s types=%s", b01(r.Bool()), hexE([]string{"id1", "dest", "x"}[r.Intn(3)]),
			[]string{"plain", "plain", "slash", "dot"}[r.Intn(4)], strings.Join(names, ","), string(types)))
	}
	return cases
}
