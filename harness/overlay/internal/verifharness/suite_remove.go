//go:build verif

package main

import (
	"bytes"
	"fmt"
	"os"
	"path/filepath"
	"time"

	"github.com/cenkalti/rain/v2/internal/logger"
	"github.com/cenkalti/rain/v2/torrent"
)

// Suite remove (C07): Session.AddTorrent(stopped) + Session.RemoveTorrent(id, keepData=false)
// through the public API on a real Session in a sandbox that contains sentinel files next to the
// data directory. Removing a torrent's data must not delete anything outside that torrent's own
// directory.
//
// op : remove incl=<0|1> + the keys of info (mode is ignored: always through AddTorrent)
// obs: reject | removed survivors=<hexE>,…      (sentinel files still present, relative to the sandbox)

func init() {
	register(&Suite{Name: "remove", Gen: genRemove, Exec: execRemove})
}

var removeSentinels = []string{
	"victim/keep",                  // above the data directory's parent
	"outer/victim/keep",            // sibling of the data directory
	"outer/data2/keep",             // sibling whose name has the data directory as string prefix
	"outer/data/other-torrent/keep", // another torrent's directory inside the data directory
	"outer/data/keep",              // a file directly in the data directory
}

func removeOp(m map[string]string) string {
	logger.Disable()
	sandbox, err := os.MkdirTemp("", "verif-remove-")
	if err != nil {
		return "sandbox-error"
	}
	defer os.RemoveAll(sandbox)
	sandbox, _ = filepath.EvalSymlinks(sandbox)
	for _, s := range removeSentinels {
		p := filepath.Join(sandbox, s)
		_ = os.MkdirAll(filepath.Dir(p), 0o755)
		_ = os.WriteFile(p, []byte("x"), 0o644)
	}
	cfg := torrent.DefaultConfig
	cfg.Database = filepath.Join(sandbox, "session.db")
	cfg.DataDir = filepath.Join(sandbox, "outer", "data")
	cfg.DataDirIncludesTorrentID = m["incl"] == "1"
	cfg.DHTEnabled = false
	cfg.PEXEnabled = false
	cfg.RPCEnabled = false
	cfg.Host = "127.0.0.1"
	cfg.ResumeOnStartup = false
	s, err := torrent.NewSession(cfg)
	if err != nil {
		return "session-error"
	}
	defer s.Close()
	t, err := s.AddTorrent(bytes.NewReader(renderMeta(renderInfoDict(m["d"]))), &torrent.AddTorrentOptions{Stopped: true, ID: "tid"})
	if err != nil {
		return "reject"
	}
	done := make(chan error, 1)
	go func() { done <- s.RemoveTorrent(t.ID(), false) }()
	select {
	case <-done:
	case <-time.After(20 * time.Second):
		return "remove-hang"
	}
	var survivors []string
	for _, sn := range removeSentinels {
		if _, err := os.Stat(filepath.Join(sandbox, sn)); err == nil {
			survivors = append(survivors, hexE(sn))
		}
	}
	return "removed survivors=" + joinOrDash(survivors)
}

func execRemove(ops []string) []string {
	var obs []string
	for _, op := range ops {
		m := kv(op)
		if m["_"] == "remove" {
			obs = append(obs, removeOp(m))
		} else {
			obs = append(obs, "unknown-op")
		}
	}
	return obs
}

var removeNames = []string{
	"t", "other-torrent", "keep", "a/b", "../victim", "../../victim", "../data2", "a/../../victim", "x/../../data2/keep",
	"/etc/verif-nonexistent", "..", ".", " ..", "../", "./other-torrent", "other-torrent/", "other-torrent/keep", "a/../other-torrent",
	"..\xff/victim", "\xff", "../data", "../../outer", "a/..", "a/../..",
}

func genRemove(r *Rng, n int, tier string) []Case {
	var cases []Case
	id := 0
	add := func(incl bool, name string, multi bool) {
		id++
		g := gInfo{Mode: "meta", UTF8: true, Pad: true}
		if multi {
			g.Entries = []string{"files:" + filesFV([]gFile{{Len: ifv(5), Path: []string{sfv("f")}}}), "name:" + sfv(name), "pl:i16", "pieces:n20"}
		} else {
			g.Entries = []string{"length:i5", "name:" + sfv(name), "pl:i16", "pieces:n20"}
		}
		op := g.Op()
		cases = append(cases, Case{ID: fmt.Sprintf("remove-%d", id), Ops: []string{"remove incl=" + b01(incl) + op[len("info"):]}})
	}
	for _, nm := range removeNames {
		add(false, nm, false)
		add(true, nm, true)
	}
	for i := 0; i < n; i++ {
		var nm string
		if r.Chance(60) {
			parts := []string{}
			for q := r.Range(1, 4); q > 0; q-- {
				parts = append(parts, []string{"..", ".", "", "a", "victim", "data", "data2", "outer", "other-torrent", "keep", " ..", "..\xff"}[r.Intn(12)])
			}
			nm = joinStr(parts, "/")
		} else {
			nm = randAtom(r)
		}
		add(r.Chance(30), nm, r.Bool())
	}
	return cases
}

func joinStr(parts []string, sep string) string {
	out := ""
	for i, p := range parts {
		if i > 0 {
			out += sep
		}
		out += p
	}
	return out
}
