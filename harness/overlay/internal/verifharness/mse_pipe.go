//go:build verif

package main

import (
	crand "crypto/rand"
	"errors"
	"io"
	"net"
	"runtime"
	"strconv"
	"strings"
	"sync"
	"sync/atomic"
	"time"
)

// ---- in-memory duplex pipe with scripted read fragmentation and taps ----

// halfPipe carries bytes in one direction.  Writes never block and are atomic; a Read returns
// min(len(p), buffered, next scripted chunk size) bytes and blocks while nothing is buffered.
type halfPipe struct {
	mu      sync.Mutex
	cond    *sync.Cond
	buf     []byte
	wclosed bool // writer finished: reader gets EOF after draining
	rclosed bool // reader gone: writes fail
	chunks  []int
	ci      int
	tap     []byte // every byte ever written
	reads   []int  // size of every successful Read
	total   int    // bytes ever written
	// deadlock detection: waiting = the party reading this direction is blocked until somebody
	// writes into it; peer = the opposite direction.  Both waiting at once means neither party
	// can ever make progress (a blocked handshake): both directions are closed, the parties see
	// the end of the transport, and the case takes no wall-clock time.
	waiting atomic.Bool
	peer    *halfPipe
	dead    *atomic.Bool
}

func newHalfPipe(chunks []int) *halfPipe {
	h := &halfPipe{chunks: chunks}
	h.cond = sync.NewCond(&h.mu)
	return h
}

func (h *halfPipe) Write(p []byte) (int, error) {
	h.mu.Lock()
	defer h.mu.Unlock()
	if h.wclosed || h.rclosed {
		return 0, io.ErrClosedPipe
	}
	h.buf = append(h.buf, p...)
	h.tap = append(h.tap, p...)
	h.total += len(p)
	h.waiting.Store(false)
	h.cond.Broadcast()
	return len(p), nil
}

// aboutToWait is called with h.mu held right before blocking for data on h.
func (h *halfPipe) aboutToWait() {
	h.waiting.Store(true)
	if h.peer != nil && h.peer.waiting.Load() {
		if h.dead != nil {
			h.dead.Store(true)
		}
		go func(a, b *halfPipe) {
			for _, x := range []*halfPipe{a, b} {
				x.mu.Lock()
				x.wclosed = true
				x.rclosed = true
				x.cond.Broadcast()
				x.mu.Unlock()
			}
		}(h, h.peer)
	}
}

func (h *halfPipe) Read(p []byte) (int, error) {
	h.mu.Lock()
	defer h.mu.Unlock()
	if len(p) == 0 {
		return 0, nil
	}
	for len(h.buf) == 0 {
		if h.rclosed {
			return 0, io.ErrClosedPipe
		}
		if h.wclosed {
			return 0, io.EOF
		}
		h.aboutToWait()
		h.cond.Wait()
	}
	n := len(p)
	if len(h.buf) < n {
		n = len(h.buf)
	}
	if len(h.chunks) > 0 {
		c := h.chunks[h.ci%len(h.chunks)]
		h.ci++
		if c < 1 {
			c = 1
		}
		if c < n {
			n = c
		}
	}
	copy(p, h.buf[:n])
	h.buf = h.buf[n:]
	h.reads = append(h.reads, n)
	return n, nil
}

func (h *halfPipe) closeWrite() {
	h.mu.Lock()
	h.wclosed = true
	h.waiting.Store(false)
	h.cond.Broadcast()
	h.mu.Unlock()
}

func (h *halfPipe) closeRead() {
	h.mu.Lock()
	h.rclosed = true
	h.waiting.Store(false)
	h.cond.Broadcast()
	h.mu.Unlock()
}

// waitTotal blocks until at least n bytes have been written in this direction, or the writer
// closed.  Returns false if the writer closed first.
func (h *halfPipe) waitTotal(n int) bool {
	h.mu.Lock()
	defer h.mu.Unlock()
	for h.total < n {
		if h.wclosed || h.rclosed {
			return false
		}
		h.aboutToWait()
		h.cond.Wait()
	}
	return true
}

func (h *halfPipe) snapshot() (tap []byte, reads []int) {
	h.mu.Lock()
	defer h.mu.Unlock()
	return append([]byte(nil), h.tap...), append([]int(nil), h.reads...)
}

// firstReadOf returns the byte count of the initial io.ReadAtLeast(…, 96): the sum of the first
// Reads up to the one that reaches 96.  0 if fewer than 96 bytes were ever read.
func firstReadOf(reads []int) int {
	n := 0
	for _, r := range reads {
		n += r
		if n >= 96 {
			return n
		}
	}
	return 0
}

// pipeEnd is one end of the duplex pipe (an io.ReadWriteCloser, and a net.Conn for btconn).
type pipeEnd struct {
	r *halfPipe
	w *halfPipe
}

func (e *pipeEnd) Read(p []byte) (int, error)  { return e.r.Read(p) }
func (e *pipeEnd) Write(p []byte) (int, error) { return e.w.Write(p) }
func (e *pipeEnd) Close() error {
	e.w.closeWrite()
	e.r.closeRead()
	return nil
}
func (e *pipeEnd) CloseWrite()                        { e.w.closeWrite() }
func (e *pipeEnd) LocalAddr() net.Addr                { return &net.TCPAddr{IP: net.IPv4(127, 0, 0, 1), Port: 1} }
func (e *pipeEnd) RemoteAddr() net.Addr               { return &net.TCPAddr{IP: net.IPv4(127, 0, 0, 2), Port: 2} }
func (e *pipeEnd) SetDeadline(t time.Time) error      { return nil }
func (e *pipeEnd) SetReadDeadline(t time.Time) error  { return nil }
func (e *pipeEnd) SetWriteDeadline(t time.Time) error { return nil }

// newDuplex returns the two ends; chunksA fragments what end A reads, chunksB what end B reads.
func newDuplex(chunksA, chunksB []int) (a, b *pipeEnd, a2b, b2a *halfPipe) {
	a2b = newHalfPipe(chunksB)
	b2a = newHalfPipe(chunksA)
	a2b.peer, b2a.peer = b2a, a2b
	dead := new(atomic.Bool)
	a2b.dead, b2a.dead = dead, dead
	return &pipeEnd{r: b2a, w: a2b}, &pipeEnd{r: a2b, w: b2a}, a2b, b2a
}

// watchdog closes the pipe ends if a case does not finish in time (a blocked handshake then shows
// up as an `eof` observation instead of hanging the harness).
func watchdog(d time.Duration, ends ...*pipeEnd) (cancel func()) {
	t := time.AfterFunc(d, func() {
		for _, e := range ends {
			e.Close()
		}
	})
	return func() { t.Stop() }
}

// ---- scripted crypto/rand.Reader ----

// scriptedRand serves every goroutine that was given a script its own byte sequence (the MSE code
// of the two endpoints runs in two goroutines and both draw from the one global rand.Reader).
// Unknown goroutines and exhausted scripts get zero bytes.
type scriptedRand struct {
	mu      sync.Mutex
	scripts map[int64][]byte
}

func goid() int64 {
	var buf [64]byte
	n := runtime.Stack(buf[:], false)
	f := strings.Fields(string(buf[:n]))
	if len(f) < 2 {
		return -1
	}
	id, _ := strconv.ParseInt(f[1], 10, 64)
	return id
}

func (s *scriptedRand) Read(p []byte) (int, error) {
	s.mu.Lock()
	defer s.mu.Unlock()
	id := goid()
	sc := s.scripts[id]
	n := copy(p, sc)
	s.scripts[id] = sc[n:]
	for i := n; i < len(p); i++ {
		p[i] = 0
	}
	return len(p), nil
}

// setScript must be called from the goroutine that will run the MSE code.
func (s *scriptedRand) setScript(b []byte) {
	s.mu.Lock()
	s.scripts[goid()] = b
	s.mu.Unlock()
}

// installRand replaces crypto/rand.Reader until restore() is called.
func installRand() (s *scriptedRand, restore func()) {
	s = &scriptedRand{scripts: map[int64][]byte{}}
	old := crand.Reader
	crand.Reader = s
	return s, func() { crand.Reader = old }
}

// padLenBytes encodes a pad length 0..511 the way rand.Int(Reader, 512) decodes two bytes:
// value = (b0&1)<<8 | b1.  The unused high bits of b0 are set from `noise` to show they are masked.
func padLenBytes(n int, noise byte) []byte {
	return []byte{byte(n>>8)&1 | noise&0xFE, byte(n)}
}

// randScriptOutgoing: draws of HandshakeOutgoing in order: private key (20), |PadA| (2), PadA, |PadC| (2).
func randScriptOutgoing(x, padA []byte, padC int) []byte {
	var s []byte
	s = append(s, x...)
	s = append(s, padLenBytes(len(padA), 0xA4)...)
	s = append(s, padA...)
	s = append(s, padLenBytes(padC, 0x5A)...)
	return s
}

// randScriptIncoming: private key (20), |PadB| (2), PadB, |PadD| (2).
func randScriptIncoming(x, padB []byte, padD int) []byte {
	var s []byte
	s = append(s, x...)
	s = append(s, padLenBytes(len(padB), 0x3C)...)
	s = append(s, padB...)
	s = append(s, padLenBytes(padD, 0xFE)...)
	return s
}

// mseErrEnum maps the errors of package mse / the transport to the model's enum.
func mseErrEnum(err error) string {
	if err == nil {
		return "ok"
	}
	m := err.Error()
	switch {
	case errors.Is(err, io.EOF), errors.Is(err, io.ErrUnexpectedEOF), errors.Is(err, io.ErrClosedPipe):
		return "eof"
	case strings.Contains(m, "no crypto methods are provided"):
		return "noprovide"
	case strings.Contains(m, "initial payload is too big"):
		return "toobig"
	case strings.Contains(m, "sync point is not found"):
		return "nosync"
	case strings.Contains(m, "none of the provided methods are accepted"):
		return "nonesel"
	case strings.Contains(m, "invalid crypto selected"):
		return "badsel"
	case strings.Contains(m, "selected crypto was not provided"), strings.Contains(m, "selected crypto is not provided"):
		return "notprovided"
	case strings.Contains(m, "invalid SKEY hash"):
		return "badskey"
	case strings.Contains(m, "invalid VC"):
		return "badvc"
	}
	return "other:" + strings.ReplaceAll(m, " ", "_")
}
