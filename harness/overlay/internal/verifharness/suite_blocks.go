//go:build verif

package main

import (
	"fmt"
	"strings"

	"github.com/cenkalti/rain/v2/internal/filesection"
	"github.com/cenkalti/rain/v2/internal/piece"
)

// Suite blocks (C02): piece.calculateBlocks(bs) on section lists.
// op: blocks bs=<n> secs=<len>:<pad>,...   obs: b:l,... | - | panic:…

func init() {
	register(&Suite{Name: "blocks", Gen: genBlocks, Exec: execBlocks})
}

func secsString(lens []int, pads []bool) string {
	var parts []string
	for i := range lens {
		parts = append(parts, fmt.Sprintf("%d:%s", lens[i], b01(pads[i])))
	}
	return joinOrDash(parts)
}

func genBlocks(r *Rng, n int, tier string) []Case {
	var cases []Case
	id := 0
	add := func(bs int, lens []int, pads []bool) {
		id++
		cases = append(cases, Case{ID: fmt.Sprintf("blocks-%d", id), Ops: []string{
			fmt.Sprintf("blocks bs=%d secs=%s", bs, secsString(lens, pads))}})
	}
	// Exhaustive small space: up to maxSecs sections, lengths 0..maxLen, block sizes 1..3.
	maxSecs, maxLen := 3, 3
	if tier == "thorough" {
		maxSecs, maxLen = 4, 4
	}
	for ns := 1; ns <= maxSecs; ns++ {
		total := 1
		for i := 0; i < ns; i++ {
			total *= (maxLen + 1) * 2
		}
		for code := 0; code < total; code++ {
			c := code
			lens := make([]int, ns)
			pads := make([]bool, ns)
			for i := 0; i < ns; i++ {
				lens[i] = c % (maxLen + 1)
				c /= maxLen + 1
				pads[i] = c%2 == 1
				c /= 2
			}
			for bs := 1; bs <= 3; bs++ {
				add(bs, lens, pads)
			}
		}
	}
	// Generated: real block size and small ones, lengths steered to coincidences.
	for i := 0; i < n; i++ {
		bs := r.Pick(1, 2, 3, 4, 5, 7, 8, 16, 16384, 16384, 16384)
		ns := r.Range(1, 8)
		lens := make([]int, ns)
		pads := make([]bool, ns)
		for j := range lens {
			k := r.Range(0, 3)
			lens[j] = r.Pick(0, 1, bs-1, bs, bs+1, k*bs, k*bs+1, 2*bs-1, r.Range(0, 4*bs))
			if lens[j] < 0 {
				lens[j] = 0
			}
			pads[j] = r.Chance(35)
		}
		add(bs, lens, pads)
	}
	return cases
}

func execBlocks(ops []string) []string {
	var obs []string
	for _, op := range ops {
		m := kv(op)
		var data filesection.Piece
		var total uint32
		for _, t := range commaList(m["secs"]) {
			parts := strings.Split(t, ":")
			ln := atoi64(parts[0])
			data = append(data, filesection.FileSection{Length: ln, Padding: parts[1] == "1"})
			total += uint32(ln)
		}
		p := piece.Piece{Length: total, Data: data}
		blocks := p.VerifCalculateBlocks(uint32(atoi(m["bs"])))
		var parts []string
		for _, b := range blocks {
			parts = append(parts, fmt.Sprintf("%d:%d", b.Begin, b.Length))
		}
		obs = append(obs, joinOrDash(parts))
	}
	return obs
}
