//go:build verif

package main

import (
	"bufio"
	"bytes"
	"encoding/hex"
	"fmt"
	"io"
	"os"
	"os/exec"
	"runtime"
	"runtime/debug"
	"strconv"
	"strings"
	"time"

	"github.com/cenkalti/rain/v2/internal/allocator"
	"github.com/cenkalti/rain/v2/internal/metainfo"
	"github.com/cenkalti/rain/v2/internal/piece"
	"github.com/cenkalti/rain/v2/torrent"
)

// Suite parse (C06): generated bencoded info dictionaries through the real metainfo.New /
// metainfo.NewInfo; every accepted description is then handed to piece.NewPieces in a watchdog
// worker process (a hang or runaway allocation is reported as an observation, not suffered).
//
// op : info …            (see metaspec.go)
// obs: reject:<class>
//    | ok pl=<n> np=<n> len=<n> padlen=<n> priv=<0|1> name=<hex> files=<len>:<0|1>,… pieces=<done|hang|oom|panic>
// op : raw kind=<deep-list|deep-dict|deep-info|deep-unknown|long-string|…> n=<k> via=<info|meta>
// obs: reject:<class> | ok …   (bytes that are not a dictionary description; crash-freedom only)

func init() {
	if os.Getenv("VERIF_NEWPIECES_WORKER") == "1" {
		newPiecesWorker()
		os.Exit(0)
	}
	register(&Suite{Name: "parse", Gen: genParse, Exec: execParse})
}

// ---------------------------------------------------------------------------------------------
// watchdog worker: runs NewInfo + NewPieces on the bytes it is sent; kills itself on hang / oom.

func newPiecesWorker() {
	in := bufio.NewReaderSize(os.Stdin, 1<<20)
	out := bufio.NewWriter(os.Stdout)
	reply := func(s string) {
		out.WriteString(s + "\n")
		out.Flush()
	}
	for {
		line, err := in.ReadString('\n')
		if err != nil {
			return
		}
		f := strings.Fields(line)
		if len(f) != 3 {
			reply("bad-request")
			continue
		}
		b, _ := hex.DecodeString(f[2])
		info, err := metainfo.NewInfo(b, f[0] == "1", f[1] == "1")
		if err != nil {
			reply("rejected")
			continue
		}
		done := make(chan string, 1)
		go func() {
			defer func() {
				if r := recover(); r != nil {
					done <- "panic"
				}
			}()
			files := make([]allocator.File, len(info.Files))
			for i, fl := range info.Files {
				files[i] = allocator.File{Name: fl.Path, Padding: fl.Padding}
			}
			ps := piece.NewPieces(info, files)
			secs := 0
			for i := range ps {
				secs += len(ps[i].Data)
			}
			done <- fmt.Sprintf("done:%d:%d", len(ps), secs)
		}()
		deadline := time.After(1500 * time.Millisecond)
		tick := time.NewTicker(5 * time.Millisecond)
		res := ""
		for res == "" {
			select {
			case res = <-done:
			case <-deadline:
				reply("hang")
				os.Exit(3)
			case <-tick.C:
				var ms runtime.MemStats
				runtime.ReadMemStats(&ms)
				if ms.HeapAlloc > 768<<20 {
					reply("oom")
					os.Exit(3)
				}
			}
		}
		tick.Stop()
		reply(res)
	}
}

type workerProc struct {
	cmd *exec.Cmd
	in  io.WriteCloser
	out *bufio.Reader
}

var npWorker *workerProc

func startWorker() *workerProc {
	exe, err := os.Executable()
	if err != nil {
		return nil
	}
	cmd := exec.Command(exe)
	cmd.Env = append(os.Environ(), "VERIF_NEWPIECES_WORKER=1", "GOMEMLIMIT=1GiB")
	in, _ := cmd.StdinPipe()
	outp, _ := cmd.StdoutPipe()
	if err := cmd.Start(); err != nil {
		return nil
	}
	return &workerProc{cmd: cmd, in: in, out: bufio.NewReaderSize(outp, 1<<16)}
}

func (w *workerProc) kill() {
	w.in.Close()
	_ = w.cmd.Process.Kill()
	_ = w.cmd.Wait()
}

// newPiecesWatched returns done:<pieces>:<sections> | hang | oom | panic | worker-error.
func newPiecesWatched(b []byte, utf8, pad bool) string {
	if npWorker == nil {
		npWorker = startWorker()
		if npWorker == nil {
			return "worker-error"
		}
	}
	w := npWorker
	type rd struct {
		s   string
		err error
	}
	ch := make(chan rd, 1)
	go func() {
		_, err := fmt.Fprintf(w.in, "%s %s %s\n", b01(utf8), b01(pad), hex.EncodeToString(b))
		if err != nil {
			ch <- rd{"", err}
			return
		}
		s, err := w.out.ReadString('\n')
		ch <- rd{strings.TrimSpace(s), err}
	}()
	select {
	case r := <-ch:
		if r.err != nil || r.s == "hang" || r.s == "oom" {
			w.kill()
			npWorker = nil
			if r.s == "" {
				return "died"
			}
		}
		return r.s
	case <-time.After(10 * time.Second):
		w.kill()
		npWorker = nil
		return "hang"
	}
}

// ---------------------------------------------------------------------------------------------

// runInfoOp builds the bytes of an `info` op and runs the real parser on them.
func runInfoOp(m map[string]string) (info *metainfo.Info, class string, raw []byte, utf8, pad bool) {
	raw = renderInfoDict(m["d"])
	utf8, pad = m["utf8"] == "1", m["pad"] == "1"
	if m["mode"] == "meta" {
		mi, err := metainfo.New(bytes.NewReader(renderMeta(raw)))
		if err != nil {
			return nil, metainfo.VerifErrClass(err), raw, true, true
		}
		return &mi.Info, "ok", raw, true, true
	}
	i, err := metainfo.NewInfo(raw, utf8, pad)
	if err != nil {
		return nil, metainfo.VerifErrClass(err), raw, utf8, pad
	}
	return i, "ok", raw, utf8, pad
}

func rawBytes(kind string, n int) []byte {
	rep := func(s string, k int) []byte { return bytes.Repeat([]byte(s), k) }
	switch kind {
	case "deep-list": // l l l l …
		return rep("l", n)
	case "deep-list-closed":
		return append(rep("l", n), rep("e", n)...)
	case "deep-dict": // d1:ad1:ad1:a…
		return rep("d1:a", n)
	case "deep-unknown": // dictionary whose unknown key holds the nesting
		return append([]byte("d1:x"), append(append(rep("l", n), rep("e", n)...), 'e')...)
	case "deep-pieces": // nesting where a byte string is expected
		return append([]byte("d6:pieces"), append(append(rep("l", n), rep("e", n)...), 'e')...)
	case "deep-files":
		return append([]byte("d5:files"), append(append(rep("l", n), rep("e", n)...), 'e')...)
	case "deep-after-list": // d1:ale1:b lllll…   (nesting in value position after a container value closed)
		return append([]byte("d1:ale1:b"), rep("l", n)...)
	case "deep-after-dict":
		return append([]byte("d1:ade1:b"), rep("l", n)...)
	case "long-string": // declared length far beyond the data
		return []byte(fmt.Sprintf("d4:name%d:abce", n))
	case "overflow-string": // a declared length that overflows a 63/64-bit accumulator; n selects value and position
		lens := []string{"9223372036854775807", "9223372036854775808", "9223372036854775829", "18446744073709551615",
			"18446744073709551616", "18446744073709551636", "99999999999999999999", "340282366920938463463374607431768211456"}
		l := lens[n%len(lens)]
		switch (n / len(lens)) % 4 {
		case 0:
			return []byte("d4:name" + l + ":abce")
		case 1:
			return []byte("d1:xl" + l + ":abcee")
		case 2:
			return []byte("d" + l + ":abce")
		default:
			return []byte("d1:ale1:bl" + l + ":e")
		}
	case "long-int":
		return append(append([]byte("d6:lengthi"), rep("9", n)...), []byte("ee")...)
	case "many-keys":
		var buf bytes.Buffer
		buf.WriteByte('d')
		for i := 0; i < n; i++ {
			fmt.Fprintf(&buf, "4:k%03di1e", i%1000)
		}
		buf.WriteByte('e')
		return buf.Bytes()
	case "empty":
		return nil
	case "garbage":
		r := NewRng(uint64(n), "garbage")
		return r.Bytes(n % 4096)
	}
	return []byte("de")
}

func describeInfo(i *metainfo.Info) string {
	var fs []string
	for _, f := range i.Files {
		fs = append(fs, fmt.Sprintf("%d:%s", f.Length, b01(f.Padding)))
	}
	return fmt.Sprintf("ok pl=%d np=%d len=%d padlen=%d priv=%s name=%s files=%s",
		i.PieceLength, i.NumPieces, i.Length, i.Padding, b01(i.Private), hexs([]byte(i.Name)), joinOrDash(fs))
}

func execParse(ops []string) []string {
	var obs []string
	for _, op := range ops {
		m := kv(op)
		switch m["_"] {
		case "info":
			info, class, raw, utf8, pad := runInfoOp(m)
			if info == nil {
				obs = append(obs, "reject:"+class)
				continue
			}
			res := newPiecesWatched(raw, utf8, pad)
			if strings.HasPrefix(res, "done:") {
				res = "done"
			}
			obs = append(obs, describeInfo(info)+" pieces="+res)
		case "limit":
			// the session guards: LimitReader(MaxTorrentSize) + parseMetaInfo, or parseInfo(version)
			raw := renderInfoDict(m["d"])
			maxPieces := uint32(atou(m["maxpieces"]))
			var info *metainfo.Info
			var err error
			if m["via"] == "meta" {
				var mi *metainfo.MetaInfo
				mi, err = torrent.VerifParseMetaInfo(bytes.NewReader(renderMeta(raw)), uint(atou(m["maxsize"])), maxPieces)
				if err == nil {
					info = &mi.Info
				}
			} else {
				info, err = torrent.VerifParseInfo(raw, atoi(m["ver"]), maxPieces)
			}
			switch {
			case err == nil:
				obs = append(obs, fmt.Sprintf("accept np=%d len=%d", info.NumPieces, info.Length))
			case strings.HasPrefix(err.Error(), "too many pieces"):
				obs = append(obs, "reject:too-many-pieces")
			case strings.HasPrefix(err.Error(), "unknown resume data version"):
				obs = append(obs, "reject:version")
			default:
				obs = append(obs, "reject:"+metainfo.VerifErrClass(err))
			}
		case "raw":
			b := rawBytes(m["kind"], atoi(m["n"]))
			var err error
			var info *metainfo.Info
			var ms0, ms1 runtime.MemStats
			runtime.ReadMemStats(&ms0)
			if m["via"] == "meta" {
				var mi *metainfo.MetaInfo
				mi, err = metainfo.New(bytes.NewReader(append([]byte("d4:info"), append(b, 'e')...)))
				if err == nil {
					info = &mi.Info
				}
			} else {
				info, err = metainfo.NewInfo(b, true, true)
			}
			runtime.ReadMemStats(&ms1)
			alloc := "small"
			if ms1.TotalAlloc-ms0.TotalAlloc > 256<<20 { // the inputs are a few MB at most
				alloc = "big"
				debug.FreeOSMemory()
			}
			if err != nil {
				obs = append(obs, "reject alloc="+alloc)
			} else {
				obs = append(obs, describeInfo(info))
			}
		default:
			obs = append(obs, "unknown-op")
		}
	}
	return obs
}

// ---------------------------------------------------------------------------------------------
// generator

const maxI64 = int64(^uint64(0) >> 1)

func i64s(v int64) string { return strconv.FormatInt(v, 10) }

// splitTotal splits total into k non-negative parts, steered to piece-length coincidences.
func splitTotal(r *Rng, total int64, k int, pl int64) []int64 {
	out := make([]int64, k)
	left := total
	for i := 0; i < k-1; i++ {
		var v int64
		switch r.Intn(6) {
		case 0:
			v = 0
		case 1:
			v = pl
		case 2:
			v = pl - 1
		case 3:
			v = 1
		default:
			if left > 0 {
				v = int64(r.U64() % uint64(left+1))
			}
		}
		if v > left {
			v = left
		}
		if v < 0 {
			v = 0
		}
		out[i] = v
		left -= v
	}
	out[k-1] = left
	return out
}

func genParseCase(r *Rng) gInfo {
	g := gInfo{Mode: "info", UTF8: r.Bool(), Pad: r.Bool()}
	if r.Chance(25) {
		g.Mode = "meta"
		g.UTF8, g.Pad = true, true
	}
	pl := int64(r.Pick(1, 2, 3, 7, 16, 64, 16384, 16384, 1<<20, 1<<31, 1<<32-1))
	np := int64(r.Pick(1, 1, 2, 3, 4, 5, 17, 100))
	if pl <= 64 && r.Chance(10) {
		np = int64(r.Range(1, 1500))
	}
	delta := int64(0)
	switch r.Intn(5) {
	case 0:
		delta = 0
	case 1:
		delta = pl - 1
	default:
		delta = int64(r.U64() % uint64(pl))
	}
	total := pl*np - delta
	nfiles := r.Pick(0, 0, 1, 2, 3, 3, 4, 6)
	malformed := r.Chance(40)
	plFV := "i" + i64s(pl)
	piecesFV := fmt.Sprintf("n%d", np*20)
	nameFV := sfv(fmt.Sprintf("t%d", r.Intn(100)))
	var lens []int64
	if nfiles > 0 {
		lens = splitTotal(r, total, nfiles, pl)
	}
	lengthFV := "i" + i64s(total)
	lenFVs := make([]string, len(lens))
	for i, l := range lens {
		lenFVs[i] = "i" + i64s(l)
	}
	var extra []string
	omit := map[string]bool{}
	dup := ""
	if malformed {
		for k := r.Range(1, 2); k > 0; k-- {
			switch r.Intn(22) {
			case 0: // one negative length, compensated so the sum still matches
				if len(lens) >= 2 {
					i, j := r.Intn(len(lens)), r.Intn(len(lens))
					if i != j {
						d := int64(r.Pick(1, 50, int(pl%100000), 1<<20))
						lens[i] -= lens[i] + d // becomes -d
						lens[j] = lens[j] + (0) // keep
						// recompute so that the sum is total
						var s int64
						for x, l := range lens {
							if x != j {
								s += l
							}
						}
						lens[j] = total - s
						for x, l := range lens {
							lenFVs[x] = "i" + i64s(l)
						}
					}
				}
			case 1: // wrapping sum: two huge entries whose sum wraps to the expected total
				if len(lens) >= 1 {
					base := []string{"i" + i64s(maxI64), "i" + i64s(maxI64)}
					// maxI64+maxI64 = 2^64-2 ≡ -2 ; add total+2
					lenFVs = append(base, "i"+i64s(total+2))
					for len(lenFVs) < len(lens) {
						lenFVs = append(lenFVs, "i0")
					}
					lens = make([]int64, len(lenFVs))
				}
			case 2: // extreme single values
				v := []string{"i" + i64s(maxI64), "i-" + "9223372036854775808", "i9223372036854775808", "i-1", "i0", "i18446744073709551616"}[r.Intn(6)]
				if len(lenFVs) > 0 {
					lenFVs[r.Intn(len(lenFVs))] = v
				} else {
					lengthFV = v
				}
			case 3:
				plFV = []string{"i0", "i4294967296", "i" + i64s(4294967296+pl), "i-1", "i18446744073709551615", "i18446744073709551616", "i4294967295", "i", "i1x", "i+5", "i007"}[r.Intn(11)]
			case 4:
				piecesFV = []string{"n0", "n19", "n21", fmt.Sprintf("n%d", np*20+1), fmt.Sprintf("n%d", (np+1)*20), fmt.Sprintf("n%d", np*20-20), "s", "l", "D3", "d", "i5"}[r.Intn(11)]
			case 5: // wrong types
				switch r.Intn(5) {
				case 0:
					plFV = []string{"s3136", "l", "d", "n3"}[r.Intn(4)]
				case 1:
					nameFV = []string{"i5", "l", "d", "D4"}[r.Intn(4)]
				case 2:
					lengthFV = []string{"s35", "l", "d"}[r.Intn(3)]
					if len(lenFVs) > 0 {
						lenFVs[r.Intn(len(lenFVs))] = []string{"s35", "l", "d"}[r.Intn(3)]
					}
				case 3:
					extra = append(extra, "files:"+[]string{"s6162", "i5", "d", "D2", "l"}[r.Intn(5)])
					omit["files"] = true
				case 4:
					extra = append(extra, "private:"+[]string{"i0", "i1", "i-1", "i2", "s", "s30", "s31", "s74727565", "l", "d", "i99999999999999999999", "i-0", "i00", "r692d65", "D2",
						"i4294967296", "i-8589934592", "i281474976710656", "i2147483648", "i4294967295", "i65536", "i256", "i-4294967296", "i9223372036854775807", "i-9223372036854775808"}[r.Intn(25)])
				}
			case 6: // duplicate scalar key (the later one wins)
				dup = []string{"pl", "pieces", "name", "length"}[r.Intn(4)]
			case 7: // unknown keys, some deeply nested, some with unparsable integers
				extra = append(extra, []string{"u7a7a:D40", "u00:i5", "u:se4", "u6d657461:d", "u78:i99999999999999999999", "u78:i-", "u7a:D1000", "u706965636573:n7", "u7a:D255", "u7a:D256", "u7a:D254"}[r.Intn(11)])
			case 8: // total off by one piece / one byte
				d := []int64{-1, 1, pl, -pl}[r.Intn(4)]
				if len(lens) > 0 {
					lens[len(lens)-1] += d
					lenFVs[len(lens)-1] = "i" + i64s(lens[len(lens)-1])
				} else {
					lengthFV = "i" + i64s(total+d)
				}
			case 9:
				omit[[]string{"pl", "pieces", "name", "length", "files"}[r.Intn(5)]] = true
			case 10: // both length and files
				omit["_both"] = true
			case 11: // zero-length and all-zero files
				for x := range lenFVs {
					if r.Chance(50) {
						lenFVs[x] = "i0"
					}
				}
			case 12: // integer syntax
				v := []string{"i-0", "i007", "i+7", "i", "i--1", "i1_0", "i 1"}[r.Intn(7)]
				if len(lenFVs) > 0 {
					lenFVs[r.Intn(len(lenFVs))] = v
				} else {
					lengthFV = v
				}
			default:
			}
		}
	}
	var files []gFile
	for i := range lenFVs {
		f := gFile{Len: lenFVs[i], Path: []string{sfv(fmt.Sprintf("f%d", i))}}
		if r.Chance(15) {
			f.Path = append([]string{sfv(fmt.Sprintf("d%d", r.Intn(2)))}, f.Path...)
		}
		if r.Chance(15) {
			f.Attr = sfv("p")
		} else if r.Chance(5) {
			f.Path = []string{sfv("_____padding_file_" + strconv.Itoa(i))}
		}
		if malformed && r.Chance(12) {
			switch r.Intn(8) {
			case 0:
				f.Path = nil // empty list
			case 1:
				f.NoPath = true
			case 2:
				f.Path = append(f.Path, "i5")
			case 3:
				f.PathRaw = []string{"s6162", "l", "d", "i1"}[r.Intn(4)]
			case 4:
				f.Path = []string{sfv("..")}
			case 5:
				f.HasPU = true
				f.PathU = []string{sfv(fmt.Sprintf("u%d", i))}
			case 6:
				f.NoLen = true
			case 7:
				f.Extra = append(f.Extra, []string{"u6d6435=s00", "attr=i1", "u78=D30", "u78=i-", "u78=D253", "u78=D252", "u78=D254"}[r.Intn(7)])
			}
		}
		files = append(files, f)
	}
	es := map[string]string{"pl": plFV, "pieces": piecesFV, "name": nameFV}
	order := []string{"files", "length", "name", "pl", "pieces"}
	if len(files) > 0 {
		es["files"] = filesFV(files)
		if omit["_both"] {
			es["length"] = lengthFV
		}
	} else {
		es["length"] = lengthFV
		if omit["_both"] {
			es["files"] = "F"
		}
	}
	if r.Chance(10) {
		es["private"] = []string{"i1", "i0", "s31", "s30", "s", "s74727565", "i-1", "i2", "l", "d", "i256", "i65536", "i2147483648", "i4294967295",
			"i4294967296", "i-4294967296", "i-8589934592", "i281474976710656", "i9223372036854775807", "i-9223372036854775808"}[r.Intn(20)]
		order = append(order, "private")
	}
	if r.Chance(5) {
		es["nameu"] = sfv("n\xc3\xa9")
		order = append(order, "nameu")
	}
	var entries []string
	for _, k := range order {
		v, ok := es[k]
		if !ok || omit[k] {
			continue
		}
		entries = append(entries, k+":"+v)
		if dup == k {
			alt := map[string]string{"pl": "i" + i64s(pl*2), "pieces": fmt.Sprintf("n%d", (np+1)*20), "name": sfv("second"), "length": "i" + i64s(total-1)}[k]
			if r.Bool() {
				entries = append(entries, k+":"+alt)
			} else {
				entries = append([]string{k + ":" + alt}, entries...)
			}
		}
	}
	entries = append(entries, extra...)
	if malformed && r.Chance(30) { // unsorted keys
		for i := len(entries) - 1; i > 0; i-- {
			j := r.Intn(i + 1)
			entries[i], entries[j] = entries[j], entries[i]
		}
	}
	g.Entries = entries
	return g
}

func genParse(r *Rng, n int, tier string) []Case {
	var cases []Case
	id := 0
	add := func(ops ...string) {
		id++
		cases = append(cases, Case{ID: fmt.Sprintf("parse-%d", id), Ops: ops})
	}
	// fixed raw inputs (crash / hang freedom of the decoding path on non-descriptions)
	for _, via := range []string{"info", "meta"} {
		for _, k := range []string{"deep-list", "deep-list-closed", "deep-dict", "deep-unknown", "deep-pieces", "deep-files", "deep-after-list", "deep-after-dict"} {
			for _, n := range []int{1, 100, 10000} {
				add(fmt.Sprintf("raw kind=%s n=%d via=%s", k, n, via))
			}
		}
		add("raw kind=long-string n=2147483647 via=" + via)
		add("raw kind=deep-list n=3000000 via=" + via)
		add("raw kind=deep-unknown n=3000000 via=" + via)
		add("raw kind=deep-after-list n=3000000 via=" + via)
		add("raw kind=long-string n=99999999999 via=" + via)
		for k := 0; k < 32; k++ {
			add(fmt.Sprintf("raw kind=overflow-string n=%d via=%s", k, via))
		}
		add("raw kind=long-int n=5000 via=" + via)
		add("raw kind=many-keys n=5000 via=" + via)
		add("raw kind=empty n=0 via=" + via)
		for i := 0; i < 20; i++ {
			add(fmt.Sprintf("raw kind=garbage n=%d via=%s", r.Range(1, 100000), via))
		}
	}
	// every encoding of the private flag on small well-formed descriptions (C19), in both entry modes
	privVals := []string{"i1", "i0", "s31", "s30", "s", "s74727565", "i-1", "i2", "l", "d", "i256", "i65536", "i2147483648", "i4294967295",
		"i4294967296", "i-4294967296", "i-8589934592", "i281474976710656", "i9223372036854775807", "i-9223372036854775808", "i99999999999999999999", "D2"}
	for _, pv := range privVals {
		for _, mode := range []string{"info", "meta"} {
			add(gInfo{Mode: mode, UTF8: true, Pad: true, Entries: []string{"name:s74", "pl:i16", "pieces:n20", "length:i9", "private:" + pv}}.Op())
			add(gInfo{Mode: mode, UTF8: true, Pad: true, Entries: []string{"files:Flen=i9,path=Ps6630|len=i3,path=Ps6631", "name:s74", "pl:i16", "pieces:n20", "private:" + pv}}.Op())
		}
	}
	for i := 0; i < n; i++ {
		g := genParseCase(r)
		if r.Chance(15) {
			// the same description through the session guards
			op := g.Op()
			d := op[strings.Index(op, " d=")+3:]
			size := len(renderMeta(renderInfoDict(d)))
			via := "info"
			if g.Mode == "meta" {
				via = "meta"
			}
			maxsize := r.Pick(size-1, size, size+1, 10<<20, 10<<20, size/2)
			maxpieces := r.Pick(0, 1, 2, 3, 4, 5, 16, 17, 99, 100, 101, 65536)
			ver := r.Pick(0, 1, 2, 3, 3, 3, 4)
			add(fmt.Sprintf("limit via=%s ver=%d maxpieces=%d maxsize=%d size=%d %s", via, ver, maxpieces, maxsize, size, op[strings.Index(op, "hash="):]))
			continue
		}
		add(g.Op())
	}
	return cases
}
