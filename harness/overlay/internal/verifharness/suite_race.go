//go:build verif

package main

import (
	"bytes"
	"fmt"
	"net"
	"net/http"
	"os"
	"path/filepath"
	"regexp"
	"sort"
	"strings"
	"sync"
	"time"

	"github.com/cenkalti/rain/v2/internal/logger"
	"github.com/cenkalti/rain/v2/internal/metainfo"
	"github.com/cenkalti/rain/v2/torrent"
)

// Suite race (C20): two real sessions (seeder, leecher) transfer a torrent over loopback while goroutines
// hammer the public API of both. The harness binary for this suite is built with -race; the race detector's
// reports (GORACE=log_path=…) are parsed at the end of the case and returned as the observation.
// Deadlocks show up as API calls that do not return (watchdog) or as the health check panicking the process.
//
// op: stress ms=<duration> clients=<n> seed=<n>     obs: races=<A~B,…|-> stuck=<call,…|-> done=<0|1>

func init() {
	register(&Suite{Name: "race", Gen: genRace, Exec: execRace})
}

func genRace(r *Rng, n int, tier string) []Case {
	var cases []Case
	for i := 0; i < n; i++ {
		ms := 2500
		if tier == "thorough" {
			ms = 8000
		}
		cases = append(cases, Case{ID: fmt.Sprintf("race-%d", i+1), Ops: []string{
			fmt.Sprintf("stress ms=%d clients=%d seed=%d", ms, r.Pick(4, 8), r.Intn(1<<30))}})
	}
	return cases
}

func raceCfg(dir string, port uint16) torrent.Config {
	cfg := torrent.DefaultConfig
	cfg.Database = filepath.Join(dir, "session.db")
	cfg.DataDir = filepath.Join(dir, "data")
	cfg.DataDirIncludesTorrentID = false
	cfg.RPCEnabled = false
	cfg.DHTEnabled = false
	cfg.Host = "127.0.0.1"
	cfg.PortBegin = port
	cfg.PortEnd = port + 20
	cfg.ResumeWriteInterval = time.Millisecond
	cfg.HealthCheckInterval = time.Second
	cfg.HealthCheckTimeout = 20 * time.Second
	cfg.TrackerStopTimeout = 200 * time.Millisecond
	cfg.MaxOpenFiles = 0
	cfg.DNSResolveTimeout = time.Second
	cfg.TrackerMinAnnounceInterval = 20 * time.Millisecond
	cfg.BlocklistEnabledForTrackers = false
	return cfg
}

var raceFrame = regexp.MustCompile(`^\s+(github\.com/cenkalti/rain/v2/[^\s(]+(?:\([^)]*\))?[^\s(]*)\(`)

// parseRaceLog returns the canonical signatures (first rain frame of each of the two stacks) of all reports.
func parseRaceLog(text string) []string {
	seen := map[string]bool{}
	for _, block := range strings.Split(text, "WARNING: DATA RACE")[1:] {
		if i := strings.Index(block, "=================="); i >= 0 {
			block = block[:i]
		}
		var firsts []string
		for _, part := range regexp.MustCompile(`(?m)^(Read at|Write at|Previous read at|Previous write at|Atomic)`).Split(block, -1)[1:] {
			// cut at "Goroutine N (running) created at:" so creation stacks are not taken
			if i := strings.Index(part, "Goroutine "); i >= 0 {
				part = part[:i]
			}
			// prefer the first frame in package torrent (it names the API call or loop handler), else the first rain frame
			f, first := "", "?"
			for _, line := range strings.Split(part, "\n") {
				if m := raceFrame.FindStringSubmatch(line); m != nil && !strings.Contains(m[1], "verifharness") && !strings.Contains(m[1], "Verif") {
					name := strings.TrimPrefix(m[1], "github.com/cenkalti/rain/v2/")
					if first == "?" {
						first = name
					}
					if strings.HasPrefix(name, "torrent.") {
						f = name
						break
					}
				}
			}
			if f == "" {
				f = first
			}
			firsts = append(firsts, f)
		}
		if len(firsts) >= 2 {
			a, b := firsts[0], firsts[1]
			if a > b {
				a, b = b, a
			}
			seen[a+"~"+b] = true
		}
	}
	var out []string
	for s := range seen {
		out = append(out, s)
	}
	sort.Strings(out)
	return out
}

// racePipeConn: one end of an in-memory pipe that presents a TCP address (the client keys its books by IP).
type racePipeConn struct {
	net.Conn
	addr *net.TCPAddr
}

func (c *racePipeConn) RemoteAddr() net.Addr { return c.addr }

func raceLogPath() string {
	for _, kv := range strings.Fields(os.Getenv("GORACE")) {
		if strings.HasPrefix(kv, "log_path=") {
			return strings.TrimPrefix(kv, "log_path=")
		}
	}
	return ""
}

func execRace(ops []string) []string {
	var obs []string
	for _, op := range ops {
		obs = append(obs, raceOne(kv(op)))
	}
	return obs
}

func raceOne(m map[string]string) string {
	logger.Disable()
	dur := time.Duration(atoi(m["ms"])) * time.Millisecond
	clients := atoi(m["clients"])
	r := NewRng(atou(m["seed"]), "race")
	root, err := os.MkdirTemp("", "verifrace")
	if err != nil {
		return "error:tmp"
	}
	defer os.RemoveAll(root)
	// content: two files, 6 MiB in total
	seedDir := filepath.Join(root, "seed")
	dataDir := filepath.Join(seedDir, "data", "payload")
	_ = os.MkdirAll(dataDir, 0o755)
	_ = os.WriteFile(filepath.Join(dataDir, "a.bin"), r.Bytes(4<<20), 0o644)
	_ = os.WriteFile(filepath.Join(dataDir, "b.bin"), r.Bytes(2<<20+12345), 0o644)
	info, err := metainfo.NewInfoBytes("", []string{dataDir}, false, 32<<10, "payload", logger.New("race"))
	if err != nil {
		return "error:create:" + err.Error()
	}
	// an in-process HTTP tracker that answers at once with a few peer addresses and a one second interval: the
	// announcers keep handing new addresses to the event loops while the API is hammered
	var trk [][]string
	if tln, err := net.Listen("tcp4", "127.0.0.1:0"); err == nil {
		tsrv := &http.Server{Handler: http.HandlerFunc(func(rw http.ResponseWriter, req *http.Request) {
			rw.Write([]byte("d8:intervali0e5:peers12:\x7f\x00\x00\x01\x00\x09\x7f\x00\x00\x02\x00\x09e")) // nolint
		})}
		go tsrv.Serve(tln) // nolint
		defer tsrv.Close()
		trk = [][]string{{"http://" + tln.Addr().String() + "/announce"}}
	}
	tb, err := metainfo.NewBytes(info, trk, nil, "")
	if err != nil {
		return "error:newbytes"
	}
	portBase := uint16(30000 + r.Intn(20000))
	scfg := raceCfg(seedDir, portBase)
	lcfg := raceCfg(filepath.Join(root, "leech"), portBase+100)
	lcfg.SpeedLimitDownload = 3000 // KB/s: the transfer lasts a couple of seconds
	lcfg.RequestTimeout = 3 * time.Millisecond // snub timers fire all the time: their reports race with stops and closes
	if raceDetector {
		// Under the race detector everything is several times slower: with 3 ms every request times out and the
		// leecher writes next to no piece (2 of 193 in a case), so that races with the piece-write path have nothing
		// to show themselves on. The snub storm is what C08 uses this suite for (without the detector).
		lcfg.RequestTimeout = 60 * time.Millisecond
	}
	ss, err := torrent.NewSession(scfg)
	if err != nil {
		return "error:seeder:" + err.Error()
	}
	ls, err := torrent.NewSession(lcfg)
	if err != nil {
		ss.Close()
		return "error:leecher:" + err.Error()
	}
	st, err := ss.AddTorrent(bytes.NewReader(tb), nil)
	if err != nil {
		return "error:add-seed:" + err.Error()
	}
	lt, err := ls.AddTorrent(bytes.NewReader(tb), nil)
	if err != nil {
		return "error:add-leech:" + err.Error()
	}
	// wait for the seeder to verify and listen
	deadline := time.Now().Add(10 * time.Second)
	for st.Stats().Status != torrent.Seeding && time.Now().Before(deadline) {
		time.Sleep(5 * time.Millisecond)
	}
	_ = lt.AddPeer(fmt.Sprintf("127.0.0.1:%d", st.Port()))

	var stuckMu sync.Mutex
	stuck := map[string]bool{}
	call := func(name string, f func()) {
		done := make(chan struct{})
		go func() { f(); close(done) }()
		select {
		case <-done:
		case <-time.After(15 * time.Second):
			stuckMu.Lock()
			stuck[name] = true
			stuckMu.Unlock()
		}
	}
	// (under the race detector a restart — allocation and a verification of what is on disk — takes longer than
	// 120 ms: stopped again that soon, the leecher never gets back to downloading)
	stopStartEvery := 120 * time.Millisecond
	if raceDetector {
		stopStartEvery = 900 * time.Millisecond
	}
	stop := make(chan struct{})
	var wg sync.WaitGroup
	for c := 0; c < clients; c++ {
		wg.Add(1)
		cr := NewRng(atou(m["seed"])+uint64(c)*7919, "race-client")
		go func(c int) {
			defer wg.Done()
			extraN := 0
			for {
				select {
				case <-stop:
					return
				default:
				}
				s, t := ls, lt
				if cr.Chance(30) {
					s, t = ss, st
				}
				switch cr.Intn(24) {
				case 0:
					call("Stats", func() { t.Stats() })
				case 1:
					call("Peers", func() { t.Peers() })
				case 2:
					call("Trackers", func() { t.Trackers() })
				case 3:
					call("Webseeds", func() { t.Webseeds() })
				case 4:
					call("Files", func() { _, _ = t.Files() })
				case 5:
					call("FileStats", func() { _, _ = t.FileStats() })
				case 6:
					call("Magnet", func() { _, _ = t.Magnet() })
				case 7:
					call("Torrent", func() { _, _ = t.Torrent() })
				case 8:
					call("Port", func() { t.Port(); t.Name(); t.InfoHash(); t.AddedAt(); t.ID() })
				case 9:
					call("AddPeerIP", func() { _ = t.AddPeer("127.0.0.1:9") })
				case 10:
					call("AddPeerHost", func() { _ = t.AddPeer("localhost:9") })
				case 11:
					call("AddTracker", func() { _ = t.AddTracker("http://127.0.0.1:9/announce") })
				case 12:
					call("Announce", func() { t.Announce() })
				case 13:
					if t == lt && cr.Chance(40) {
						call("StopStart", func() { _ = t.Stop(); time.Sleep(time.Duration(cr.Intn(30)) * time.Millisecond); _ = t.Start() })
					}
				case 14:
					call("ListTorrents", func() { s.ListTorrents(); s.GetTorrent(t.ID()) })
				case 15:
					call("SessionStats", func() { s.Stats() })
				case 16:
					call("CompactDatabase", func() {
						_ = s.CompactDatabase(filepath.Join(root, fmt.Sprintf("compact-%d-%d.db", c, cr.Intn(1000))))
					})
				case 17:
					// add and remove another small torrent
					extraN++
					call("AddRemove", func() {
						d := filepath.Join(root, fmt.Sprintf("x-%d-%d", c, extraN))
						_ = os.MkdirAll(filepath.Join(d, "p"), 0o755)
						_ = os.WriteFile(filepath.Join(d, "p", "f"), cr.Bytes(40000), 0o644)
						ib, err := metainfo.NewInfoBytes("", []string{filepath.Join(d, "p")}, false, 16<<10, fmt.Sprintf("x%d_%d", c, extraN), logger.New("race"))
						if err != nil {
							return
						}
						xb, _ := metainfo.NewBytes(ib, nil, nil, "")
						x, err := s.AddTorrent(bytes.NewReader(xb), nil)
						if err != nil {
							return
						}
						x.Stats()
						// getters of a torrent keep being called while it is removed
						pollStop := make(chan struct{})
						var pw sync.WaitGroup
						for g := 0; g < 3; g++ {
							pw.Add(1)
							go func() {
								defer pw.Done()
								for {
									select {
									case <-pollStop:
										return
									default:
									}
									x.Stats()
									x.Peers()
									x.Trackers()
								}
							}()
						}
						_ = x.Start()
						_ = s.RemoveTorrent(x.ID(), false)
						close(pollStop)
						pw.Wait()
					})
				case 18:
					if t == lt && cr.Chance(10) {
						call("Verify", func() { _ = t.Verify(); time.Sleep(20 * time.Millisecond); _ = t.Start() })
					}
				case 19:
					call("NotifyComplete", func() { t.NotifyComplete(); t.NotifyStop() })
				case 20:
					if cr.Chance(30) {
						call("StartAll", func() { _ = s.StartAll() })
					}
				case 21:
					if s == ss && cr.Chance(5) {
						call("StopAllStartAll", func() { _ = s.StopAll(); _ = s.StartAll() })
					}
				default:
					time.Sleep(time.Duration(cr.Intn(3)) * time.Millisecond)
				}
			}
		}(c)
	}
	// dedicated pollers: a status display that asks for the tracker list, the peers and the statistics all the time
	for g := 0; g < 2; g++ {
		wg.Add(1)
		go func(g int) {
			defer wg.Done()
			for {
				select {
				case <-stop:
					return
				default:
				}
				t := lt
				if g == 1 {
					t = st
				}
				call("PollTrackers", func() { t.Trackers() })
				call("PollPeers", func() { t.Peers() })
				call("PollStats", func() { t.Stats() })
			}
		}(g)
	}
	// a user who stops and starts the leecher every now and then: peers are closed while their snub timers fire
	wg.Add(1)
	go func() {
		defer wg.Done()
		for {
			select {
			case <-stop:
				return
			case <-time.After(stopStartEvery):
			}
			call("PeriodicStopStart", func() { _ = lt.Stop(); time.Sleep(10 * time.Millisecond); _ = lt.Start() })
		}
	}()
	// plain peers (no fast extension, no extension protocol) that connect to the leecher while it is writing pieces:
	// they are sent the bitfield as their first message. In-memory pipes: the race detector takes every socket
	// read/write for a synchronisation, which would hide an unsynchronised hand-over of the message's bytes.
	wg.Add(1)
	go func() {
		defer wg.Done()
		ih := lt.InfoHash()
		for n := 0; ; n++ {
			select {
			case <-stop:
				return
			case <-time.After(25 * time.Millisecond):
			}
			a, b := net.Pipe()
			pc := &racePipeConn{Conn: a, addr: &net.TCPAddr{IP: net.IPv4(127, 0, 3, byte(1+n%200)), Port: 40000 + n%1000}}
			if !torrent.VerifInjectIncoming(lt, pc) {
				a.Close()
				b.Close()
				continue
			}
			go func(b net.Conn, n int) {
				defer b.Close()
				_ = b.SetDeadline(time.Now().Add(400 * time.Millisecond))
				hs := append([]byte{19}, []byte("BitTorrent protocol")...)
				hs = append(hs, make([]byte, 8)...)
				hs = append(hs, ih[:]...)
				id := make([]byte, 20)
				copy(id, fmt.Sprintf("-VF0001-%012d", n))
				hs = append(hs, id...)
				// (an in-memory pipe is synchronous: the client answers after the first 48 bytes and reads the peer id
				// afterwards, so the reading must not wait for the write to finish)
				go func() { _, _ = b.Write(hs) }()
				buf := make([]byte, 4096)
				for {
					if _, err := b.Read(buf); err != nil {
						return
					}
				}
			}(b, n)
		}
	}()
	time.Sleep(dur)
	close(stop)
	wg.Wait()
	done := 0
	if lt.Stats().Status == torrent.Seeding {
		done = 1
	}
	call("CloseLeecher", func() { ls.Close() })
	call("CloseSeeder", func() { ss.Close() })
	// crash dumps of the health check (a loop that stopped responding) would have killed the process already
	var stuckL []string
	for k := range stuck {
		stuckL = append(stuckL, k)
	}
	sort.Strings(stuckL)
	races := []string{}
	if lp := raceLogPath(); lp != "" {
		files, _ := filepath.Glob(lp + ".*")
		var all strings.Builder
		for _, f := range files {
			b, _ := os.ReadFile(f)
			all.Write(b)
			_ = os.Truncate(f, 0)
		}
		races = parseRaceLog(all.String())
	}
	return fmt.Sprintf("races=%s stuck=%s done=%d", joinOrDash(races), joinOrDash(stuckL), done)
}
