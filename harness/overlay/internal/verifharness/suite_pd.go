//go:build verif

package main

import (
	"fmt"
	"sort"
	"strings"

	"github.com/cenkalti/rain/v2/internal/bufferpool"
	"github.com/cenkalti/rain/v2/internal/filesection"
	"github.com/cenkalti/rain/v2/internal/piece"
	"github.com/cenkalti/rain/v2/internal/piecedownloader"
)

// Suite pd (C01, C17): operation sequences on the real PieceDownloader with a recording peer.
//
// ops:  new bs=<n> real=<0|1> secs=<len>:<pad>,… af=<0|1> fast=<0|1> short=<k>
//       got begin=<n> data=<runs> | choked | rejected begin=<n> len=<n> | request q=<int> | cancel | done
// obs:  res=<…> req=<b:l,…> can=<b:l,… sorted> blocks=<b:l,…> rem=<…> pend=<sorted> done=<sorted> isdone=<0|1> buf=<runs>
//       `nostate` when no downloader exists yet.

func init() {
	register(&Suite{Name: "pd", Gen: genPD, Exec: execPD})
}

type recPeer struct {
	fast bool
	req  [][2]uint32
	can  [][2]uint32
	idx  []uint32
}

func (p *recPeer) RequestPiece(index, begin, length uint32) {
	p.req = append(p.req, [2]uint32{begin, length})
	p.idx = append(p.idx, index)
}
func (p *recPeer) CancelPiece(index, begin, length uint32) {
	p.can = append(p.can, [2]uint32{begin, length})
	p.idx = append(p.idx, index)
}
func (p *recPeer) EnabledFast() bool { return p.fast }

func parsePieceSecs(s string) (filesection.Piece, uint32) {
	var data filesection.Piece
	var total uint32
	for _, t := range commaList(s) {
		parts := strings.Split(t, ":")
		ln := atoi64(parts[0])
		data = append(data, filesection.FileSection{Length: ln, Padding: len(parts) > 1 && parts[1] == "1"})
		total += uint32(ln)
	}
	return data, total
}

type pdSim struct {
	blocks    [][2]uint32
	remaining []uint32
	pending   map[uint32]bool
	done      map[uint32]bool
	af, fast  bool
	total     uint32
}

func (s *pdSim) length(b uint32) (uint32, bool) {
	for _, x := range s.blocks {
		if x[0] == b {
			return x[1], true
		}
	}
	return 0, false
}

func (s *pdSim) sortedPending() []uint32 {
	var ks []uint32
	for k := range s.pending {
		ks = append(ks, k)
	}
	sort.Slice(ks, func(i, j int) bool { return ks[i] < ks[j] })
	return ks
}

func pdData(r *Rng, l int) []byte {
	if l <= 0 {
		return nil
	}
	if l <= 24 {
		switch r.Intn(4) {
		case 0:
			b := make([]byte, l)
			v := byte(r.Intn(3)) // may be all zero
			for i := range b {
				b[i] = v
			}
			return b
		default:
			return r.Bytes(l)
		}
	}
	b := make([]byte, l)
	v := byte(1 + r.Intn(255))
	for i := range b {
		b[i] = v
	}
	// a few distinct bytes at the edges
	b[0] = byte(r.U64())
	b[l-1] = byte(r.U64())
	if l > 2 {
		b[r.Intn(l)] = byte(r.U64())
	}
	return b
}

// pdEnumerate: every call sequence of length 1..maxLen over a fixed alphabet on the padded piece
// [data 2][pad 1][data 2] with block size 2 (blocks (0,2) and (3,2)).
func pdEnumerate(maxLen int) []Case {
	alphabet := []string{
		"request q=1", "request q=2", "got begin=0 data=a1a2", "got begin=3 data=b1b2", "got begin=0 data=c1",
		"got begin=1 data=d1d2", "got begin=3 data=e1e2", "choked", "rejected begin=0 len=2", "rejected begin=3 len=2",
		"cancel", "done",
	}
	var cases []Case
	id := 0
	var rec func(prefix []string, depth int)
	rec = func(prefix []string, depth int) {
		if len(prefix) > 0 {
			id++
			fast := id%3 == 0
			ops := append([]string{fmt.Sprintf("new bs=2 real=0 secs=2:0,1:1,2:0 af=0 fast=%s short=0", b01(fast))}, prefix...)
			cases = append(cases, Case{ID: fmt.Sprintf("pd-enum-%d", id), Ops: ops})
		}
		if depth == 0 {
			return
		}
		for _, a := range alphabet {
			rec(append(append([]string(nil), prefix...), a), depth-1)
		}
	}
	rec(nil, maxLen)
	return cases
}

func genPD(r *Rng, n int, tier string) []Case {
	var cases []Case
	if tier == "thorough" {
		cases = append(cases, pdEnumerate(4)...)
	} else {
		cases = append(cases, pdEnumerate(3)...)
	}
	for ci := 0; ci < n; ci++ {
		var ops []string
		real := r.Chance(6)
		bs := r.Pick(1, 2, 3, 4, 4, 5, 8, 16)
		if real {
			bs = piece.BlockSize
		}
		ns := r.Range(1, 5)
		var parts []string
		for j := 0; j < ns; j++ {
			k := r.Range(0, 3)
			ln := r.Pick(0, 1, bs-1, bs, bs+1, k*bs, k*bs+1, 2*bs-1, r.Range(0, 3*bs))
			if real {
				ln = r.Pick(1, 21, bs-1, bs, bs+1, k*bs, k*bs+42, r.Range(0, 3*bs))
			}
			if ln < 0 {
				ln = 0
			}
			parts = append(parts, fmt.Sprintf("%d:%s", ln, b01(r.Chance(30))))
		}
		secs := strings.Join(parts, ",")
		af, fast := r.Chance(20), r.Chance(35)
		short := 0
		if r.Chance(4) {
			short = r.Range(1, 3)
		}
		ops = append(ops, fmt.Sprintf("new bs=%d real=%s secs=%s af=%s fast=%s short=%d", bs, b01(real), secs, b01(af), b01(fast), short))

		data, total := parsePieceSecs(secs)
		p := piece.Piece{Length: total, Data: data}
		sim := &pdSim{pending: map[uint32]bool{}, done: map[uint32]bool{}, af: af, fast: fast, total: total}
		for _, b := range p.VerifCalculateBlocks(uint32(bs)) {
			sim.blocks = append(sim.blocks, [2]uint32{b.Begin, b.Length})
			sim.remaining = append(sim.remaining, b.Begin)
		}
		request := func(q int) {
			ops = append(ops, fmt.Sprintf("request q=%d", q))
			rem := sim.remaining
			for _, b := range rem {
				if len(sim.pending) >= q {
					break
				}
				sim.remaining = sim.remaining[1:]
				sim.pending[b] = true
			}
		}
		got := func(b uint32, l int) {
			d := pdData(r, l)
			ops = append(ops, fmt.Sprintf("got begin=%d data=%s", b, encRuns(d)))
			if bl, ok := sim.length(b); ok && int(bl) == l && !sim.done[b] {
				sim.done[b] = true
				delete(sim.pending, b)
			}
		}
		anyBlock := func() (uint32, uint32) {
			if len(sim.blocks) == 0 {
				return uint32(r.Intn(4)), uint32(r.Intn(4))
			}
			x := sim.blocks[r.Intn(len(sim.blocks))]
			return x[0], x[1]
		}
		malformed := func() {
			b, l := anyBlock()
			switch r.Intn(7) {
			case 0:
				got(b+1, int(l))
			case 1:
				if b > 0 {
					got(b-1, int(l))
				} else {
					got(b+l, int(l))
				}
			case 2:
				got(b, int(l)+1)
			case 3:
				got(b, int(l)-1)
			case 4:
				got(b, 0)
			case 5:
				_, l2 := anyBlock()
				b3, _ := anyBlock()
				got(b3, int(l2)) // length of another block (often equal: then it is simply valid)
			default:
				got(uint32(r.Intn(int(sim.total)+3)), r.Intn(bs+2))
			}
		}
		nops := r.Range(3, 30)
		for k := 0; k < nops; k++ {
			x := r.Intn(100)
			switch {
			case x < 25:
				request(r.Pick(-1, 0, 1, 1, 2, 2, 3, 4, 5, 100))
			case x < 62:
				y := r.Intn(100)
				pend := sim.sortedPending()
				switch {
				case y < 55 && len(pend) > 0:
					b := pend[r.Intn(len(pend))]
					l, _ := sim.length(b)
					got(b, int(l))
				case y < 65:
					b, l := anyBlock()
					got(b, int(l)) // unrequested or duplicate or pending, whatever it is now
				case y < 75 && len(sim.done) > 0:
					for b := range sim.done {
						_ = b
					}
					var ds []uint32
					for b := range sim.done {
						ds = append(ds, b)
					}
					sort.Slice(ds, func(i, j int) bool { return ds[i] < ds[j] })
					b := ds[r.Intn(len(ds))]
					l, _ := sim.length(b)
					got(b, int(l))
				default:
					malformed()
				}
			case x < 72:
				ops = append(ops, "choked")
				if !sim.af && !sim.fast {
					for _, b := range sim.sortedPending() {
						delete(sim.pending, b)
						sim.remaining = append(sim.remaining, b)
					}
				}
			case x < 82:
				b, l := anyBlock()
				switch r.Intn(4) {
				case 0:
					l++
				case 1:
					b++
				}
				ops = append(ops, fmt.Sprintf("rejected begin=%d len=%d", b, l))
				if bl, ok := sim.length(b); ok && bl == l {
					delete(sim.pending, b)
					sim.remaining = append(sim.remaining, b)
				}
			case x < 88:
				ops = append(ops, "cancel")
			default:
				ops = append(ops, "done")
			}
		}
		if r.Chance(65) {
			// drive to completion, then keep talking
			for round := 0; round < 2*len(sim.blocks)+4 && len(sim.done) < len(sim.blocks); round++ {
				request(r.Pick(1, 2, 3, 100))
				pend := sim.sortedPending()
				// deliver in a shuffled order, sometimes with a duplicate in between
				for len(pend) > 0 {
					i := r.Intn(len(pend))
					b := pend[i]
					pend = append(pend[:i], pend[i+1:]...)
					l, _ := sim.length(b)
					got(b, int(l))
					if r.Chance(15) {
						got(b, int(l))
					}
					if r.Chance(10) {
						malformed()
					}
				}
				if len(sim.pending) == 0 && len(sim.remaining) == 0 && len(sim.done) < len(sim.blocks) {
					// blocks lost to pending without a request cannot happen; but be safe
					for _, x := range sim.blocks {
						if !sim.done[x[0]] {
							got(x[0], int(x[1]))
						}
					}
				}
			}
			ops = append(ops, "done")
			for k := r.Range(0, 3); k > 0; k-- {
				if r.Bool() {
					b, l := anyBlock()
					got(b, int(l))
				} else {
					malformed()
				}
			}
			ops = append(ops, "done")
		}
		cases = append(cases, Case{ID: fmt.Sprintf("pd-%d", ci+1), Ops: ops})
	}
	return cases
}

func execPD(ops []string) []string {
	var obs []string
	var d *piecedownloader.PieceDownloader
	var pe *recPeer
	var pi *piece.Piece
	state := func(res string, withBlocks bool) string {
		blocks, rem, pend, done := d.VerifState()
		sort.Slice(pe.can, func(i, j int) bool { return pe.can[i][0] < pe.can[j][0] })
		for _, ix := range pe.idx {
			if ix != pi.Index {
				res += "!index"
				break
			}
		}
		bl := ""
		if withBlocks {
			bl = " blocks=" + pairList(blocks)
		}
		return fmt.Sprintf("res=%s req=%s can=%s%s rem=%s pend=%s done=%s isdone=%s buf=%s",
			res, pairList(pe.req), pairList(pe.can), bl, u32list(rem), u32list(pend), u32list(done), b01(d.Done()), encRuns(d.Buffer.Data))
	}
	for _, op := range ops {
		m := kv(op)
		if m["_"] == "new" {
			data, total := parsePieceSecs(m["secs"])
			if len(data) == 0 {
				obs = append(obs, "nostate")
				d = nil
				continue
			}
			pi = &piece.Piece{Index: 7, Length: total, Data: data}
			pe = &recPeer{fast: m["fast"] == "1"}
			blen := int(total) - atoi(m["short"])
			if blen < 0 {
				blen = 0
			}
			// exact-size backing array so that a slice beyond len(Data) panics instead of touching slack
			pool := bufferpool.New(blen)
			dirty := pool.Get(blen)
			for i := range dirty.Data {
				dirty.Data[i] = 0xEE
			}
			dirty.Release()
			buf := pool.Get(blen)
			if m["real"] == "1" {
				d = piecedownloader.New(pi, pe, m["af"] == "1", buf)
			} else {
				d = piecedownloader.VerifNewWithBlockSize(pi, pe, m["af"] == "1", buf, uint32(atoi(m["bs"])))
			}
			obs = append(obs, state("new", true))
			continue
		}
		if d == nil {
			obs = append(obs, "nostate")
			continue
		}
		pe.req, pe.can, pe.idx = nil, nil, nil
		res := "?"
		func() {
			defer func() {
				if r := recover(); r != nil {
					res = "panic"
				}
			}()
			switch m["_"] {
			case "got":
				err := d.GotBlock(uint32(atou(m["begin"])), decRuns(m["data"]))
				switch err {
				case nil:
					res = "ok"
				case piecedownloader.ErrBlockInvalid:
					res = "invalid"
				case piecedownloader.ErrBlockDuplicate:
					res = "duplicate"
				case piecedownloader.ErrBlockNotRequested:
					res = "notrequested"
				default:
					res = "othererror"
				}
			case "choked":
				d.Choked()
				res = "-"
			case "rejected":
				res = b01(d.Rejected(uint32(atou(m["begin"])), uint32(atou(m["len"]))))
			case "request":
				d.RequestBlocks(atoi(m["q"]))
				res = "-"
			case "cancel":
				d.CancelPending()
				res = "-"
			case "done":
				res = b01(d.Done())
			default:
				res = "badop"
			}
		}()
		obs = append(obs, state(res, false))
	}
	return obs
}
