//go:build verif && race

package main

// raceDetector: the harness is built with the race detector (C20's use of the race suite).
const raceDetector = true
