//go:build verif

package torrent

import (
	"net"
	"reflect"
	"runtime"
	"time"

	"github.com/cenkalti/rain/v2/internal/infodownloader"
	"github.com/cenkalti/rain/v2/internal/logger"
	"github.com/cenkalti/rain/v2/internal/peer"
	"github.com/cenkalti/rain/v2/internal/peerprotocol"
	"github.com/cenkalti/rain/v2/internal/peersource"
)

// VerifMetaPeer describes one connected peer for VerifNextInfoDownload.
type VerifMetaPeer struct {
	// Handshake is the decoded extension handshake, nil if none was received.
	Handshake *peerprotocol.ExtensionHandshakeMessage
	// Busy: the peer already has an info downloader.
	Busy bool
}

var verifMetaPeers []*peer.Peer

func verifMetaPeer(i int) *peer.Peer {
	for len(verifMetaPeers) <= i {
		c1, _ := net.Pipe()
		var id [20]byte
		id[0] = byte(len(verifMetaPeers))
		verifMetaPeers = append(verifMetaPeers, peer.New(c1, peersource.Incoming, id, [8]byte{}, 0, time.Second, time.Second, 1, 1<<20, nil, nil))
	}
	return verifMetaPeers[i]
}

// VerifNextInfoDownload runs the real (*torrent).nextInfoDownload on a torrent value that has
// only the fields that function reads: peers, infoDownloaders, session.config.MaxMetadataSize, log.
// It returns the index of the chosen peer (-1 if none) and the size of the buffer allocated for it.
func VerifNextInfoDownload(maxMetadataSize uint, peers []VerifMetaPeer) (pick int, bufLen int) {
	t := &torrent{
		session:         &Session{config: Config{MaxMetadataSize: maxMetadataSize}},
		peers:           make(map[*peer.Peer]struct{}),
		infoDownloaders: make(map[*peer.Peer]*infodownloader.InfoDownloader),
		log:             logger.New("verif"),
	}
	index := make(map[*peer.Peer]int)
	for i, p := range peers {
		pe := verifMetaPeer(i)
		pe.ExtensionHandshake = p.Handshake
		t.peers[pe] = struct{}{}
		index[pe] = i
		if p.Busy {
			t.infoDownloaders[pe] = &infodownloader.InfoDownloader{Peer: pe}
		}
	}
	id := t.nextInfoDownload()
	if id == nil {
		return -1, 0
	}
	return index[id.Peer.(*peer.Peer)], len(id.Bytes)
}

// VerifMetadataHandlerSource returns the path of the source file that defines
// (*torrent).handleMetadataMessage in the tree the harness was built from.
func VerifMetadataHandlerSource() string {
	pc := reflect.ValueOf((*torrent).handleMetadataMessage).Pointer()
	f, _ := runtime.FuncForPC(pc).FileLine(pc)
	return f
}
