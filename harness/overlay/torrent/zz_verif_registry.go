//go:build verif

package torrent

import (
	"crypto/sha1"
	"sort"

	"github.com/cenkalti/rain/v2/internal/tracker"
	"go.etcd.io/bbolt"
)

// Read-only views of the session registry for the C14 suites (registry, registry-concurrent).
// Nothing here changes behaviour; VerifBumpCounters only increments the transfer counters the
// way peer traffic would.

// VerifFreePorts returns the sorted set of available ports.
func VerifFreePorts(s *Session) []int {
	s.mPorts.RLock()
	defer s.mPorts.RUnlock()
	ps := make([]int, 0, len(s.availablePorts))
	for p := range s.availablePorts {
		ps = append(ps, p)
	}
	sort.Ints(ps)
	return ps
}

// VerifDB exposes the session's bbolt handle (the file is flock'ed, so a second handle cannot be opened).
func VerifDB(s *Session) *bbolt.DB { return s.db }

// VerifTorrentsBucket is the name of the bucket that holds one sub-bucket per torrent id.
func VerifTorrentsBucket() []byte { return torrentsBucket }

// VerifByInfoHash returns the second registry index as sorted "infohash:id" pairs.
func VerifByInfoHash(s *Session) [][2]string {
	s.mTorrents.RLock()
	defer s.mTorrents.RUnlock()
	var out [][2]string
	for ih, l := range s.torrentsByInfoHash {
		for _, t := range l {
			out = append(out, [2]string{string(ih), t.torrent.id})
		}
	}
	sort.Slice(out, func(i, j int) bool {
		if out[i][0] != out[j][0] {
			return out[i][0] < out[j][0]
		}
		return out[i][1] < out[j][1]
	})
	return out
}

// VerifInvalidIDs returns ids of records that failed to load at startup.
func VerifInvalidIDs(s *Session) []string {
	out := append([]string(nil), s.invalidTorrentIDs...)
	sort.Strings(out)
	return out
}

// VerifTorrentView is the part of a live torrent that has no public getter.
type VerifTorrentView struct {
	StopAfterDownload, StopAfterMetadata, Sequential, CompleteCmdRun bool
	HasInfo                                                          bool
	InfoRot                                                          bool // info bytes no longer hash to the info-hash
	FixedPeers                                                       []string
	Trackers                                                         [][]string // tiers of the live tracker set, URLs sorted inside a tier
	Downloaded, Uploaded, Wasted, SeededFor                          int64
}

func VerifView(t *Torrent) VerifTorrentView {
	tt := t.torrent
	_ = tt.Stats() // barrier: commands sent before this call have been handled by the loop
	var tiers [][]string
	for _, tr := range tt.trackers {
		if ti, ok := tr.(*tracker.Tier); ok {
			var urls []string
			for _, x := range ti.Trackers {
				urls = append(urls, x.URL())
			}
			sort.Strings(urls)
			tiers = append(tiers, urls)
		} else {
			tiers = append(tiers, []string{tr.URL()})
		}
	}
	return VerifTorrentView{
		Trackers:          tiers,
		StopAfterDownload: tt.stopAfterDownload,
		StopAfterMetadata: tt.stopAfterMetadata,
		Sequential:        tt.sequential,
		CompleteCmdRun:    tt.completeCmdRun,
		HasInfo:           tt.info != nil,
		InfoRot:           tt.info != nil && sha1.Sum(tt.info.Bytes) != tt.infoHash,
		FixedPeers:        tt.fixedPeers,
		Downloaded:        tt.bytesDownloaded.Count(),
		Uploaded:          tt.bytesUploaded.Count(),
		Wasted:            tt.bytesWasted.Count(),
		SeededFor:         tt.seededFor.Count(),
	}
}

// VerifBumpCounters adds to the transfer counters (what peer traffic does through the same counters).
func VerifBumpCounters(t *Torrent, dl, ul, wasted, seeded int64) {
	t.torrent.bytesDownloaded.Inc(dl)
	t.torrent.bytesUploaded.Inc(ul)
	t.torrent.bytesWasted.Inc(wasted)
	t.torrent.seededFor.Inc(seeded)
}

// VerifUpdateStats runs the periodic resume-stats writer once (normally driven by a ticker).
func VerifUpdateStats(s *Session) { s.updateStats() }

// VerifHasBitfield reports whether the live torrent has an in-memory bitfield (read under its lock).
func VerifHasBitfield(t *Torrent) bool {
	t.torrent.mBitfield.RLock()
	defer t.torrent.mBitfield.RUnlock()
	return t.torrent.bitfield != nil
}
