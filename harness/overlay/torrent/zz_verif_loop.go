//go:build verif

package torrent

// Event-loop harness (DESIGN 4.3): a real Session and torrent, in-memory gated storage, scripted peers on
// fake connections. Events reach the loop exactly as in production (its channels), one at a time, and after
// each the harness waits until the loop is quiescent (a Stats() round trip is the barrier; workers are
// followed until they finish or block on a gate). Everything here is harness code: nothing is committed
// to /repo, the file is mapped in by `go build -overlay`.

import (
	"bytes"
	"crypto/sha1"
	"encoding/binary"
	"errors"
	"fmt"
	"io"
	"net"
	"net/http"
	"os"
	"path/filepath"
	"runtime"
	"sort"
	"strconv"
	"strings"
	"sync"
	"time"

	"github.com/cenkalti/rain/v2/internal/announcer"
	"github.com/cenkalti/rain/v2/internal/logger"
	"github.com/cenkalti/rain/v2/internal/peer"
	"github.com/cenkalti/rain/v2/internal/peerconn/peerreader"
	"github.com/cenkalti/rain/v2/internal/peerprotocol"
	"github.com/cenkalti/rain/v2/internal/storage"
	"github.com/zeebo/bencode"
	"go.etcd.io/bbolt"
)

// ---------------------------------------------------------------------------------------------
// storage
// ---------------------------------------------------------------------------------------------

type verifFileData struct {
	data   []byte
	exists bool
}

type verifStorage struct {
	mu     sync.Mutex
	files  map[string]*verifFileData
	log    []string // storage calls since the last drain
	opened int
	closed int
	ops    int // every storage call ever made (a progress counter for settle)

	gateOpen, gateWrite, gateRead bool
	blockedOpen, blockedWrite     int
	blockedRead                   int
	release                       *sync.Cond
	failWrite                     bool
	failOpen                      bool
	failOpenName                  string // "" = every Open fails, else only the Open of that file
	gateWriteDone                 bool   // WriteAt is held after it has stored the bytes (the writer goroutine is descheduled before it reports)
	blockedWriteDone              int
	truth                         func(name string, off int64, p []byte) bool
	lastWrite                     func(name string, off int64, n int) bool
	firstWrite                    func(name string, off int64) bool
}

// verifLoopPatience: how long the harness waits for the event loop to take an event or answer a barrier before it
// calls the loop hung. The loop commits to the resume database (an fsync) inside some handlers; on a machine that is
// busy with other checks such a commit has been seen to take longer than five seconds.
const verifLoopPatience = 20 * time.Second

func newVerifStorage() *verifStorage {
	s := &verifStorage{files: map[string]*verifFileData{}}
	s.release = sync.NewCond(&s.mu)
	return s
}

func (s *verifStorage) GetStorage(string) (storage.Storage, error) { return s, nil }
func (s *verifStorage) RootDir() string                            { return "/verif-mem" }

func (s *verifStorage) Open(name string, size int64) (storage.File, bool, error) {
	s.mu.Lock()
	defer s.mu.Unlock()
	s.ops++
	for s.gateOpen {
		s.blockedOpen++
		s.release.Wait()
		s.blockedOpen--
	}
	if s.failOpen && (s.failOpenName == "" || s.failOpenName == name) {
		s.log = append(s.log, "openfail:"+name)
		return nil, false, errors.New("verif: open failed")
	}
	f, ok := s.files[name]
	exists := ok && f.exists
	if !ok {
		f = &verifFileData{}
		s.files[name] = f
	}
	if !exists {
		f.data = make([]byte, size)
		f.exists = true
	} else if int64(len(f.data)) != size {
		nd := make([]byte, size)
		copy(nd, f.data)
		f.data = nd
	}
	s.opened++
	s.log = append(s.log, fmt.Sprintf("open:%s:%d:%s", name, size, map[bool]string{true: "existed", false: "new"}[exists]))
	return &verifFile{s: s, name: name, f: f}, exists, nil
}

type verifFile struct {
	s      *verifStorage
	name   string
	f      *verifFileData
	closed bool
}

func (f *verifFile) ReadAt(p []byte, off int64) (int, error) {
	f.s.mu.Lock()
	defer f.s.mu.Unlock()
	f.s.ops++
	// (closing the file ends a read that is parked on the gate, as closing a real file ends pending IO)
	for f.s.gateRead && !f.closed {
		f.s.blockedRead++
		f.s.release.Wait()
		f.s.blockedRead--
	}
	if f.closed {
		return 0, os.ErrClosed
	}
	if off >= int64(len(f.f.data)) {
		return 0, io.EOF
	}
	n := copy(p, f.f.data[off:])
	if n < len(p) {
		return n, io.EOF
	}
	return n, nil
}

func (f *verifFile) WriteAt(p []byte, off int64) (int, error) {
	f.s.mu.Lock()
	defer f.s.mu.Unlock()
	f.s.ops++
	for f.s.gateWrite {
		f.s.blockedWrite++
		f.s.release.Wait()
		f.s.blockedWrite--
	}
	if f.closed {
		f.s.log = append(f.s.log, fmt.Sprintf("writeclosed:%s:%d:%d", f.name, off, len(p)))
		return 0, os.ErrClosed
	}
	// failWrite: the first storage call of every piece fails. (The piece writer gives up at the first error, so
	// for it this is "every write fails"; a writer that went on after an error would get the rest of the piece
	// stored — the later sections are not refused.)
	if f.s.failWrite && (f.s.firstWrite == nil || f.s.firstWrite(f.name, off)) {
		f.s.log = append(f.s.log, fmt.Sprintf("writefail:%s:%d:%d", f.name, off, len(p)))
		return 0, errors.New("verif: write failed")
	}
	if off+int64(len(p)) > int64(len(f.f.data)) {
		f.s.log = append(f.s.log, fmt.Sprintf("writeoob:%s:%d:%d", f.name, off, len(p)))
		return 0, errors.New("verif: write out of bounds")
	}
	copy(f.f.data[off:], p)
	verdict := "bad"
	if f.s.truth != nil && f.s.truth(f.name, off, p) {
		verdict = "ok"
	}
	f.s.log = append(f.s.log, fmt.Sprintf("write:%s:%d:%d:%s", f.name, off, len(p), verdict))
	for f.s.gateWriteDone && (f.s.lastWrite == nil || f.s.lastWrite(f.name, off, len(p))) {
		f.s.blockedWriteDone++
		f.s.release.Wait()
		f.s.blockedWriteDone--
	}
	return len(p), nil
}

func (f *verifFile) Close() error {
	f.s.mu.Lock()
	defer f.s.mu.Unlock()
	f.s.ops++
	if !f.closed {
		f.closed = true
		f.s.closed++
		f.s.log = append(f.s.log, "close:"+f.name)
		f.s.release.Broadcast()
	}
	return nil
}

func (s *verifStorage) drain() []string {
	s.mu.Lock()
	defer s.mu.Unlock()
	l := s.log
	s.log = nil
	return l
}

// ---------------------------------------------------------------------------------------------
// fake connection + decoder of what the client sends
// ---------------------------------------------------------------------------------------------

type verifAddr struct{ *net.TCPAddr }

type verifConn struct {
	mu       sync.Mutex
	cond     *sync.Cond
	remote   *net.TCPAddr
	in       []byte // bytes the scripted peer "sent" (handshake), consumed by Read
	eof      bool   // remote closed
	closed   bool   // closed locally by the client
	out      []byte // bytes written by the client, not yet parsed
	hsSeen   bool   // client's 68-byte handshake consumed
	hs       []byte
	msgs     []string // decoded messages since last drain
	sentinel int      // sentinels seen
	w        *VerifWorld
}

func newVerifConn(w *VerifWorld, remote *net.TCPAddr) *verifConn {
	c := &verifConn{remote: remote, w: w}
	c.cond = sync.NewCond(&c.mu)
	return c
}

func (c *verifConn) Read(p []byte) (int, error) {
	c.mu.Lock()
	defer c.mu.Unlock()
	for len(c.in) == 0 && !c.eof && !c.closed {
		c.cond.Wait()
	}
	if len(c.in) > 0 {
		n := copy(p, c.in)
		c.in = c.in[n:]
		return n, nil
	}
	if c.closed {
		return 0, &net.OpError{Op: "read", Net: "verif", Err: net.ErrClosed}
	}
	return 0, io.EOF
}

const verifSentinelIndex = 0xFFFFFFF0

func (c *verifConn) Write(p []byte) (int, error) {
	c.mu.Lock()
	defer c.mu.Unlock()
	if c.closed {
		return 0, &net.OpError{Op: "write", Net: "verif", Err: net.ErrClosed}
	}
	c.out = append(c.out, p...)
	c.parse()
	c.cond.Broadcast()
	return len(p), nil
}

func (c *verifConn) parse() {
	if !c.hsSeen {
		if len(c.out) < 68 {
			return
		}
		c.hs = append([]byte(nil), c.out[:68]...)
		c.out = c.out[68:]
		c.hsSeen = true
	}
	for len(c.out) >= 4 {
		l := binary.BigEndian.Uint32(c.out[:4])
		if uint32(len(c.out)-4) < l {
			return
		}
		frame := c.out[4 : 4+l]
		c.out = c.out[4+l:]
		if l == 0 {
			continue // keep-alive (timer driven, not compared)
		}
		s := c.w.decodeFrame(frame)
		if s == "sentinel" {
			c.sentinel++
			continue
		}
		if s != "" {
			c.msgs = append(c.msgs, s)
		}
	}
}

func (c *verifConn) Close() error {
	c.mu.Lock()
	defer c.mu.Unlock()
	c.closed = true
	c.cond.Broadcast()
	return nil
}
func (c *verifConn) LocalAddr() net.Addr                { return &net.TCPAddr{IP: net.IPv4(127, 0, 0, 1), Port: 1} }
func (c *verifConn) RemoteAddr() net.Addr               { return c.remote }
func (c *verifConn) SetDeadline(t time.Time) error      { return nil }
func (c *verifConn) SetReadDeadline(t time.Time) error  { return nil }
func (c *verifConn) SetWriteDeadline(t time.Time) error { return nil }

func (c *verifConn) isClosed() bool {
	c.mu.Lock()
	defer c.mu.Unlock()
	return c.closed
}

func (c *verifConn) drain() []string {
	c.mu.Lock()
	defer c.mu.Unlock()
	m := c.msgs
	c.msgs = nil
	return m
}

// decodeFrame renders one message written by the client canonically.
func (w *VerifWorld) decodeFrame(f []byte) string {
	id := f[0]
	b := f[1:]
	u := func(i int) uint32 {
		if len(b) < 4*(i+1) {
			return 0
		}
		return binary.BigEndian.Uint32(b[4*i:])
	}
	switch id {
	case 0:
		return "choke"
	case 1:
		return "unchoke"
	case 2:
		return "interested"
	case 3:
		return "notinterested"
	case 4:
		if u(0) == verifSentinelIndex {
			return "sentinel"
		}
		return fmt.Sprintf("have:%d", u(0))
	case 5:
		return fmt.Sprintf("bitfield:%x", b)
	case 6:
		return fmt.Sprintf("request:%d:%d:%d", u(0), u(1), u(2))
	case 7:
		data := b[8:]
		verdict := "bad"
		if w.truthSlice(u(0), u(1), uint32(len(data)), data) {
			verdict = "ok"
		}
		return fmt.Sprintf("piece:%d:%d:%d:%s", u(0), u(1), len(data), verdict)
	case 8:
		return fmt.Sprintf("cancel:%d:%d:%d", u(0), u(1), u(2))
	case 9:
		if len(b) >= 2 {
			return fmt.Sprintf("port:%d", binary.BigEndian.Uint16(b))
		}
		return "port:?"
	case 13:
		return fmt.Sprintf("suggest:%d", u(0))
	case 14:
		return "haveall"
	case 15:
		return "havenone"
	case 16:
		return fmt.Sprintf("reject:%d:%d:%d", u(0), u(1), u(2))
	case 17:
		return fmt.Sprintf("allowedfast:%d", u(0))
	case 20:
		if len(b) == 0 {
			return "ext:empty"
		}
		ext := b[0]
		payload := b[1:]
		dec := bencode.NewDecoder(bytes.NewReader(payload))
		var m map[string]interface{}
		if err := dec.Decode(&m); err != nil {
			return fmt.Sprintf("ext:%d:undecodable", ext)
		}
		rest := payload[dec.BytesParsed():]
		if ext == 0 {
			var keys []string
			if mm, ok := m["m"].(map[string]interface{}); ok {
				for k, v := range mm {
					keys = append(keys, fmt.Sprintf("%s=%v", k, v))
				}
			}
			sort.Strings(keys)
			v, _ := m["v"].(string)
			return fmt.Sprintf("exths:m=%s:size=%v:reqq=%v:v=%s", strings.Join(keys, "+"), m["metadata_size"], m["reqq"], strings.ReplaceAll(v, " ", "_"))
		}
		if _, ok := m["msg_type"]; ok {
			verdict := ""
			if mt, _ := m["msg_type"].(int64); mt == 1 {
				pi, _ := m["piece"].(int64)
				verdict = ":bad"
				if w.infoBytes != nil {
					s := int(pi) * 16384
					e := s + len(rest)
					if s >= 0 && e <= len(w.infoBytes) && bytes.Equal(rest, w.infoBytes[s:e]) && (len(rest) == 16384 || e == len(w.infoBytes)) {
						verdict = ":ok"
					}
				}
			}
			return fmt.Sprintf("extmeta:%d:type=%v:piece=%v:total=%v:len=%d%s", ext, m["msg_type"], m["piece"], m["total_size"], len(rest), verdict)
		}
		if _, ok := m["added"]; ok {
			return "" // PEX messages are timer driven; observed separately
		}
		return fmt.Sprintf("ext:%d:other", ext)
	}
	return fmt.Sprintf("unknown:%d", id)
}

// ---------------------------------------------------------------------------------------------
// world
// ---------------------------------------------------------------------------------------------

type verifPeer struct {
	k     int
	conn  *verifConn
	pe    *peer.Peer
	fast  bool
	ext   bool
	sents int
}

// verifTracker is an in-process HTTP tracker. It records every announce and can be told to hang.
type verifTracker struct {
	idx         int
	ln          net.Listener
	srv         *http.Server
	mu          sync.Mutex
	mode        string // ok | hang | hang-stopped
	log         []string
	inflight    int
	hung        int      // requests currently parked because the tracker is told not to answer
	hungStopped int      // … of which stopped announces
	reqs        int      // requests ever received
	rlog        []string // announces received from torrents opened by reload ops
	release     chan struct{}
	w           *VerifWorld
}

func (tr *verifTracker) url() string { return "http://" + tr.ln.Addr().String() + "/announce" }

func (tr *verifTracker) ServeHTTP(rw http.ResponseWriter, req *http.Request) {
	q := req.URL.Query()
	ev := q.Get("event")
	if ev == "" {
		ev = "none"
	}
	pid := "other"
	switch {
	case strings.HasPrefix(q.Get("peer_id"), tr.w.sess.config.PrivatePeerIDPrefix):
		pid = "priv"
	case strings.HasPrefix(q.Get("peer_id"), publicPeerIDPrefix):
		pid = "pub"
	}
	tr.w.reloadMu.Lock()
	reloaded := tr.w.reloadIDs[q.Get("peer_id")]
	tr.w.reloadMu.Unlock()
	if !reloaded && q.Get("peer_id") != string(tr.w.t.peerID[:]) {
		pid += "!mismatch"
	}
	ua := "pub"
	if req.UserAgent() == tr.w.sess.config.TrackerHTTPPrivateUserAgent {
		ua = "priv"
	}
	ih := "ok"
	if q.Get("info_hash") != string(tr.w.t.infoHash[:]) {
		ih = "bad"
	}
	tr.mu.Lock()
	// counters and port as the tracker sees them: L<left> (judged by the model) and P<ok|bad> (against Torrent.Port)
	pv := "ok"
	if q.Get("port") != fmt.Sprint(tr.w.sess.config.PortBegin) {
		pv = "bad"
	}
	if reloaded {
		// an announce of the torrent as reloaded from the resume database by the reload op: kept apart
		tr.rlog = append(tr.rlog, fmt.Sprintf("%d:%s:%s:%s:%s", tr.idx, ev, pid, ua, ih))
		tr.mu.Unlock()
		rw.Write([]byte("d8:intervali1800e5:peers0:e")) // nolint
		return
	}
	tr.log = append(tr.log, fmt.Sprintf("%d:%s:%s:%s:%s:L%s:P%s", tr.idx, ev, pid, ua, ih, q.Get("left"), pv))
	tr.reqs++
	hang := tr.mode == "hang" || (tr.mode == "hang-stopped" && ev == "stopped")
	rel := tr.release
	tr.inflight++
	tr.mu.Unlock()
	if hang {
		tr.mu.Lock()
		tr.hung++
		if ev == "stopped" {
			tr.hungStopped++
		}
		tr.mu.Unlock()
		select {
		case <-rel:
		case <-req.Context().Done():
		case <-time.After(20 * time.Second):
		}
		tr.mu.Lock()
		tr.hung--
		if ev == "stopped" {
			tr.hungStopped--
		}
		tr.mu.Unlock()
	}
	tr.mu.Lock()
	tr.inflight--
	tr.mu.Unlock()
	rw.Write([]byte("d8:intervali1800e5:peers0:e")) // nolint
}

// VerifWorld is one scripted universe: a session with one torrent and scripted peers.
type VerifWorld struct {
	reloadMu  sync.Mutex
	reloadIDs map[string]bool // peer ids of the torrents opened by reload ops (their announces are kept apart)
	dir       string
	sess      *Session
	gone      bool // the torrent has been removed from the session (last op of a case)
	tor       *Torrent
	t         *torrent
	sto       *verifStorage
	peers     map[int]*verifPeer
	content   []byte // ground truth: concatenation of all files (padding = zeros)
	pl        int
	flens     []int
	fpads     []bool
	nPieces   int
	hashes    [][]byte

	infoBytes    []byte
	torrentBytes []byte
	magnet       bool
	dead         bool
	deferred     int
	multi        bool
	deferredMu   sync.Mutex
	sink         net.Listener
	holdSink     net.Listener // accepts and never answers: outgoing handshakes to it stay pending
	holdNext     int
	holdOpen     int // connections the hold sink has accepted and the client has not closed yet
	holdConns    []net.Conn
	sinkAddr     *net.TCPAddr
	sinkMu       sync.Mutex
	sinkDials    int
	trackers     []*verifTracker
	stubs        []*verifWsStub // scripted web seeds (zz_verif_wsloop.go); empty unless `new … webseeds=<n>`
}

func (w *VerifWorld) startSink() {
	ln, err := net.Listen("tcp4", "127.0.0.1:0")
	if err != nil {
		return
	}
	w.sink = ln
	w.sinkAddr = ln.Addr().(*net.TCPAddr)
	go func() {
		for {
			c, err := ln.Accept()
			if err != nil {
				return
			}
			w.sinkMu.Lock()
			w.sinkDials++
			w.sinkMu.Unlock()
			c.Close()
		}
	}()
}

func (w *VerifWorld) fileName(i int) string {
	if len(w.flens) == 1 && !w.fpads[0] && !w.multi {
		return "t"
	}
	if w.fpads[i] {
		return fmt.Sprintf("t/.pad/%d", w.flens[i])
	}
	return fmt.Sprintf("t/f%d", i)
}

func verifContentByte(seed uint64, i int) byte {
	z := seed + uint64(i)*0x9E3779B97F4A7C15
	z = (z ^ (z >> 30)) * 0xBF58476D1CE4E5B9
	z = (z ^ (z >> 27)) * 0x94D049BB133111EB
	return byte(z ^ (z >> 31))
}

func (w *VerifWorld) truthSlice(index, begin, length uint32, data []byte) bool {
	s := int(index)*w.pl + int(begin)
	e := s + int(length)
	if s < 0 || e > len(w.content) || int(length) != len(data) {
		return false
	}
	return bytes.Equal(w.content[s:e], data)
}

func verifKV(op string) (string, map[string]string) {
	f := strings.Fields(op)
	m := map[string]string{}
	if len(f) == 0 {
		return "", m
	}
	for _, t := range f[1:] {
		if i := strings.IndexByte(t, '='); i >= 0 {
			m[t[:i]] = t[i+1:]
		} else {
			m[t] = "1"
		}
	}
	return f[0], m
}

func verifAtoi(s string, def int) int {
	if s == "" {
		return def
	}
	n, err := strconv.Atoi(s)
	if err != nil {
		return def
	}
	return n
}

// VerifNewWorld builds the session and adds the torrent (stopped).
// op: new pl=<n> files=<len>:<pad>,... [seq=1] [private=1] [magnet=1] [seed=<n>] [badpadhash=1|2] [cfg.<Key>=<int>…]
func VerifNewWorld(op string) (*VerifWorld, string) {
	_, m := verifKV(op)
	w := &VerifWorld{peers: map[int]*verifPeer{}, sto: newVerifStorage()}
	w.pl = verifAtoi(m["pl"], 32)
	seed := uint64(verifAtoi(m["seed"], 7))
	for _, f := range strings.Split(m["files"], ",") {
		if f == "" {
			continue
		}
		p := strings.Split(f, ":")
		w.flens = append(w.flens, verifAtoi(p[0], 0))
		w.fpads = append(w.fpads, len(p) > 1 && p[1] == "1")
	}
	if len(w.flens) == 0 {
		return nil, "bad-op:no-files"
	}
	for i, l := range w.flens {
		for j := 0; j < l; j++ {
			if w.fpads[i] {
				w.content = append(w.content, 0)
			} else {
				w.content = append(w.content, verifContentByte(seed+uint64(i)*1000003, j))
			}
		}
	}
	if len(w.content) == 0 || w.pl <= 0 {
		return nil, "bad-op:empty"
	}
	var pieces []byte
	for off := 0; off < len(w.content); off += w.pl {
		e := off + w.pl
		if e > len(w.content) {
			e = len(w.content)
		}
		h := sha1.Sum(w.content[off:e])
		pieces = append(pieces, h[:]...)
		w.hashes = append(w.hashes, h[:])
	}
	w.nPieces = len(w.hashes)
	// badpadhash=1: the creator of the torrent recorded a wrong SHA-1 for every piece that lies entirely inside
	// padding files (BEP 47); badpadhash=2: for the first such piece only. Ignored when a file has length 0.
	if mode := verifAtoi(m["badpadhash"], 0); mode > 0 {
		zero := false
		for _, l := range w.flens {
			if l == 0 {
				zero = true
			}
		}
		for i := 0; i < w.nPieces && !zero; i++ {
			if !w.paddingOnly(i) {
				continue
			}
			pieces[i*20] ^= 0xff
			w.hashes[i] = pieces[i*20 : i*20+20]
			if mode == 2 {
				break
			}
		}
	}
	w.sto.truth = func(name string, off int64, p []byte) bool {
		pos := 0
		for i, l := range w.flens {
			if w.fileName(i) == name && !w.fpads[i] {
				s := pos + int(off)
				return off >= 0 && int(off)+len(p) <= l && bytes.Equal(w.content[s:s+len(p)], p)
			}
			pos += l
		}
		return false
	}
	// lastWrite: the write [off, off+n) into the file is the last storage call of its piece (the end of the
	// piece's last non-empty data section)
	w.sto.lastWrite = func(name string, off int64, n int) bool {
		pos := 0
		for i, l := range w.flens {
			if w.fileName(i) == name && !w.fpads[i] {
				end := pos + int(off) + n // global offset of the end of the write
				if n == 0 {
					return false // the (empty) write into a file of length zero is never the last call of a piece
				}
				if end == pos+l {
					// the file ends here: last call unless data bytes of the same piece follow in a later file
					pieceEnd := ((end-1)/w.pl + 1) * w.pl
					q := pos + l
					for j := i + 1; j < len(w.flens) && q < pieceEnd; j++ {
						if !w.fpads[j] && w.flens[j] > 0 {
							return false
						}
						q += w.flens[j]
					}
					return true
				}
				return end%w.pl == 0
			}
			pos += l
		}
		return true
	}
	// firstWrite: the write at off into the file is the first storage call of its piece
	w.sto.firstWrite = func(name string, off int64) bool {
		pos := 0
		for i, l := range w.flens {
			if w.fileName(i) == name && !w.fpads[i] {
				g := pos + int(off)
				if off != 0 {
					return g%w.pl == 0
				}
				pieceStart := g / w.pl * w.pl
				q := pos
				for j := i - 1; j >= 0 && q > pieceStart; j-- {
					if !w.fpads[j] && w.flens[j] > 0 {
						return false
					}
					q -= w.flens[j]
				}
				return true
			}
			pos += l
		}
		return true
	}
	info := map[string]interface{}{"name": "t", "piece length": w.pl, "pieces": pieces}
	w.multi = m["multi"] == "1"
	if len(w.flens) == 1 && !w.fpads[0] && !w.multi {
		info["length"] = w.flens[0]
	} else {
		var files []interface{}
		for i, l := range w.flens {
			f := map[string]interface{}{"length": l, "path": []string{fmt.Sprintf("f%d", i)}}
			if w.fpads[i] {
				f["attr"] = "p"
				f["path"] = []string{".pad", strconv.Itoa(l)}
			}
			files = append(files, f)
		}
		info["files"] = files
	}
	if m["private"] == "1" {
		info["private"] = 1
	}
	ib, err := bencode.EncodeBytes(info)
	if err != nil {
		return nil, "bad-op:" + err.Error()
	}
	w.infoBytes = ib
	meta := map[string]interface{}{"info": bencode.RawMessage(ib)}
	for i := 0; i < verifAtoi(m["trackers"], 0); i++ {
		ln, err := net.Listen("tcp4", "127.0.0.1:0")
		if err != nil {
			break
		}
		tr := &verifTracker{idx: i, ln: ln, mode: "ok", release: make(chan struct{}), w: w}
		tr.srv = &http.Server{Handler: tr}
		go tr.srv.Serve(ln) // nolint
		w.trackers = append(w.trackers, tr)
	}
	if len(w.trackers) > 0 {
		var al [][]string
		for _, tr := range w.trackers {
			al = append(al, []string{tr.url()})
		}
		meta["announce-list"] = al
	}
	if n := verifAtoi(m["webseeds"], 0); n > 0 {
		meta["url-list"] = w.wsSetup(n)
	}
	tb, err := bencode.EncodeBytes(meta)
	if err != nil {
		return nil, "bad-op:" + err.Error()
	}
	w.torrentBytes = tb

	dir, err := os.MkdirTemp("", "verifloop")
	if err != nil {
		return nil, "bad-op:" + err.Error()
	}
	w.dir = dir
	logger.Disable()
	cfg := DefaultConfig
	cfg.Database = filepath.Join(dir, "session.db")
	cfg.DataDir = filepath.Join(dir, "data")
	cfg.RPCEnabled = false
	cfg.DHTEnabled = false
	if m["dht"] == "1" {
		// a real DHT node on loopback with no bootstrap nodes: nothing leaves the machine
		cfg.DHTEnabled = true
		cfg.DHTHost = "127.0.0.1"
		cfg.DHTPort = 0
		cfg.DHTBootstrapNodes = nil
	}
	// The two minimum announce intervals are independent options with the same default. The harness's trackers
	// answer `interval 1800` and never give peers, so a torrent keeps asking for more: the next regular announce
	// is due after the TRACKER minimum (a minute: never inside a case). The DHT minimum is made tiny, so that a
	// tracker announcer paced by the wrong option shows up as regular announces within a case.
	cfg.DHTMinAnnounceInterval = 40 * time.Millisecond
	cfg.PEXEnabled = m["pex"] != "0"
	cfg.CustomStorage = w.sto
	cfg.ResumeOnStartup = false
	cfg.Host = "127.0.0.1"
	// one port that is free right now (other harness processes run concurrently)
	cfg.PortBegin = 20000
	if ln, err := net.Listen("tcp4", "127.0.0.1:0"); err == nil {
		cfg.PortBegin = uint16(ln.Addr().(*net.TCPAddr).Port)
		ln.Close()
	}
	cfg.PortEnd = cfg.PortBegin + 1
	cfg.TrackerStopTimeout = 2 * time.Second
	if verifAtoi(m["trackers"], 0) > 0 {
		cfg.TrackerStopTimeout = 400 * time.Millisecond
		cfg.BlocklistEnabledForTrackers = false
	}
	cfg.HealthCheckInterval = time.Hour
	cfg.ResumeWriteInterval = time.Hour
	cfg.RequestTimeout = time.Hour // snubs are injected, never timed
	cfg.PeerHandshakeTimeout = time.Hour
	cfg.WebseedResponseBodyReadTimeout = time.Hour // a stalled web seed is scripted, never timed
	cfg.MaxOpenFiles = 0
	cfg.DisableOutgoingEncryption = true
	cfg.PrivatePeerIDPrefix = "-PV0001-"
	cfg.PrivateExtensionHandshakeClientVersion = "PrivClient 1"
	cfg.TrackerHTTPPrivateUserAgent = "PrivAgent/1"
	for k, v := range m {
		if !strings.HasPrefix(k, "cfg.") {
			continue
		}
		n := verifAtoi(v, 0)
		switch k[4:] {
		case "MaxPieces":
			cfg.MaxPieces = uint32(n)
		case "MaxPeerAccept":
			cfg.MaxPeerAccept = n
		case "MaxPeerDial":
			cfg.MaxPeerDial = n
		case "MaxRequestsIn":
			cfg.MaxRequestsIn = n
		case "MaxRequestsOut":
			cfg.MaxRequestsOut = n
		case "DefaultRequestsOut":
			cfg.DefaultRequestsOut = n
		case "EndgameMaxDuplicateDownloads":
			cfg.EndgameMaxDuplicateDownloads = n
		case "AllowedFastSet":
			cfg.AllowedFastSet = n
		case "UnchokedPeers":
			cfg.UnchokedPeers = n
		case "OptimisticUnchokedPeers":
			cfg.OptimisticUnchokedPeers = n
		case "WriteCacheSize":
			cfg.WriteCacheSize = int64(n)
		case "ReadCacheBlockSize":
			cfg.ReadCacheBlockSize = int64(n)
		case "ReadCacheSize":
			cfg.ReadCacheSize = int64(n)
		case "MaxMetadataSize":
			cfg.MaxMetadataSize = uint(n)
		case "ParallelMetadataDownloads":
			cfg.ParallelMetadataDownloads = n
		case "MaxPeerAddresses":
			cfg.MaxPeerAddresses = n
		case "ForceIncomingEncryption":
			cfg.ForceIncomingEncryption = n != 0
		case "WebseedMaxDownloads":
			cfg.WebseedMaxDownloads = n
		case "WebseedMaxSources":
			cfg.WebseedMaxSources = n
		}
	}
	s, err := NewSession(cfg)
	if err != nil {
		os.RemoveAll(dir)
		return nil, "bad-op:session:" + err.Error()
	}
	w.sess = s
	if len(w.stubs) > 0 {
		// the real web seed downloaders of the torrent talk to the scripted stubs, no socket is opened
		s.webseedClient.Transport = &verifWsTransport{w: w}
	}
	opt := &AddTorrentOptions{Stopped: true, Sequential: m["seq"] == "1", StopAfterDownload: m["stopafter"] == "1", StopAfterMetadata: m["stopaftermeta"] == "1"}
	var tor *Torrent
	if m["magnet"] == "1" {
		w.magnet = true
		ih := sha1.Sum(ib)
		tor, err = s.AddURI(fmt.Sprintf("magnet:?xt=urn:btih:%x&dn=t", ih[:]), opt)
	} else {
		tor, err = s.AddTorrent(bytes.NewReader(tb), opt)
	}
	if err != nil {
		s.Close()
		os.RemoveAll(dir)
		return nil, "add-error:" + verifErrClass(err)
	}
	w.tor = tor
	w.t = tor.torrent
	w.startSink()
	if m["seeded"] == "1" {
		// the files are already on disk with the true content
		off := 0
		for i, l := range w.flens {
			if !w.fpads[i] {
				w.sto.files[w.fileName(i)] = &verifFileData{data: append([]byte(nil), w.content[off:off+l]...), exists: true}
			}
			off += l
		}
	}
	return w, fmt.Sprintf("ok isize=%d ", len(w.infoBytes)) + w.observe()
}

func verifErrClass(err error) string {
	if err == nil {
		return "nil"
	}
	s := err.Error()
	s = strings.ReplaceAll(s, " ", "_")
	if len(s) > 60 {
		s = s[:60]
	}
	return s
}

// Close tears the world down.
func (w *VerifWorld) Close() {
	if w.sess != nil && !w.dead {
		w.sto.mu.Lock()
		w.sto.gateOpen, w.sto.gateWrite, w.sto.gateRead, w.sto.gateWriteDone = false, false, false, false
		w.sto.release.Broadcast()
		w.sto.mu.Unlock()
		done := make(chan struct{})
		go func() { w.sess.Close(); close(done) }()
		select {
		case <-done:
		case <-time.After(10 * time.Second):
		}
	}
	for _, p := range w.peers {
		p.conn.mu.Lock()
		p.conn.eof = true
		p.conn.cond.Broadcast()
		p.conn.mu.Unlock()
	}
	if w.sink != nil {
		w.sink.Close()
	}
	if w.holdSink != nil {
		w.holdSink.Close()
		w.sinkMu.Lock()
		for _, c := range w.holdConns {
			c.Close()
		}
		w.sinkMu.Unlock()
	}
	for _, tr := range w.trackers {
		tr.mu.Lock()
		close(tr.release)
		tr.release = make(chan struct{})
		tr.mu.Unlock()
		tr.srv.Close()
	}
	if w.dir != "" {
		os.RemoveAll(w.dir)
	}
}

var errVerifHang = errors.New("hang")

func (w *VerifWorld) anyTrackerHanging() bool {
	for _, tr := range w.trackers {
		tr.mu.Lock()
		h := tr.mode != "ok"
		tr.mu.Unlock()
		if h {
			return true
		}
	}
	return false
}

// autoRelease opens the open/read gates after a command that makes the loop wait for the allocator or
// verifier goroutine (stop() calls Allocator.Close / Verifier.Close, which block until the worker's
// current storage call returns). A real storage call always returns; a gate held forever would be an
// artefact of the harness. The command has already been taken by the loop when this runs, so the
// ordering "command before worker result" is preserved.
func (w *VerifWorld) autoRelease() {
	w.sto.mu.Lock()
	w.sto.gateOpen, w.sto.gateRead = false, false
	w.sto.release.Broadcast()
	w.sto.mu.Unlock()
	w.waitGatesPassed()
}

// waitGatesPassed waits until every goroutine that was parked on a gate which is open now has actually
// left it, so that the "blocked" counters used by settle() are current.
func (w *VerifWorld) waitGatesPassed() {
	deadline := time.Now().Add(2 * time.Second)
	for time.Now().Before(deadline) {
		w.sto.mu.Lock()
		pending := (!w.sto.gateOpen && w.sto.blockedOpen > 0) || (!w.sto.gateWrite && w.sto.blockedWrite > 0) ||
			(!w.sto.gateRead && w.sto.blockedRead > 0) || (!w.sto.gateWriteDone && w.sto.blockedWriteDone > 0)
		w.sto.mu.Unlock()
		if !pending {
			return
		}
		time.Sleep(50 * time.Microsecond)
	}
}

// call runs a public-API call that hands a command to the loop; false = the loop did not take it in 5 s.
func (w *VerifWorld) call(f func()) bool {
	done := make(chan struct{})
	go func() { f(); close(done) }()
	select {
	case <-done:
		return true
	case <-time.After(verifLoopPatience):
		w.dead = true
		verifDumpStacks()
		return false
	}
}

// verifDumpStacks keeps the goroutine stacks of a loop that stopped responding (VERIF_DUMP_DIR): they are the
// evidence of the hang.
func verifDumpStacks() {
	if d := os.Getenv("VERIF_DUMP_DIR"); d != "" {
		buf := make([]byte, 4<<20)
		n := runtime.Stack(buf, true)
		_ = os.WriteFile(filepath.Join(d, fmt.Sprintf("hang-%d-%d.txt", os.Getpid(), time.Now().UnixNano()%1000000)), buf[:n], 0o644)
	}
}

// barrier is a Stats() round trip: when it returns, every handler started before it has finished.
func (w *VerifWorld) barrier() (Stats, error) {
	ch := make(chan Stats, 1)
	go func() { ch <- w.t.Stats() }()
	select {
	case st := <-ch:
		return st, nil
	case <-time.After(verifLoopPatience):
		w.dead = true
		verifDumpStacks()
		return Stats{}, errVerifHang
	}
}

// settle waits until the loop and its workers are quiescent (finished, or blocked on a storage gate).
func (w *VerifWorld) settle() error {
	deadline := time.Now().Add(8 * time.Second)
	stable := 0
	lastSig := ""
	for {
		st0, err := w.barrier()
		if err != nil {
			return err
		}
		t := w.t
		busy := false
		w.sto.mu.Lock()
		bo, bw, br := w.sto.blockedOpen, w.sto.blockedWrite+w.sto.blockedWriteDone, w.sto.blockedRead
		sops := w.sto.ops
		w.sto.mu.Unlock()
		// The fields below are read while the loop may already be inside its next handler. A round counts as
		// quiet only if it also shows the same progress signature as the previous quiet round: the status the
		// loop itself reported, and the number of storage calls and tracker requests ever made (a worker that
		// completed in between has made at least one of them).
		treqs := 0
		for _, tr := range w.trackers {
			tr.mu.Lock()
			treqs += tr.reqs
			tr.mu.Unlock()
		}
		sig := fmt.Sprint(st0.Status, sops, treqs, t.allocator != nil, t.verifier != nil, t.stoppedEventAnnouncer != nil, len(t.announcers))
		if len(w.stubs) > 0 {
			sig += fmt.Sprint(" ", w.wsSteps())
			if w.wsBusy() {
				busy = true // a web seed downloader is on its way to its stub or to the loop
			}
		}
		if t.allocator != nil && bo == 0 {
			busy = true
		}
		if t.verifier != nil && br == 0 {
			busy = true
		}
		if t.pieceMessagesC.VerifSuspended() && bw == 0 {
			busy = true
		}
		hungTotal := 0
		for _, tr := range w.trackers {
			tr.mu.Lock()
			if tr.inflight > tr.hung {
				busy = true // a request is being answered right now
			}
			hungTotal += tr.hung
			tr.mu.Unlock()
		}
		// the stop announcer is quiescent only when every tracker it announces to has received the request
		// and those that are told not to answer hold it
		if t.stoppedEventAnnouncer != nil {
			expected := 0
			for _, u := range t.stoppedEventAnnouncer.VerifTrackerURLs() {
				for _, tr := range w.trackers {
					tr.mu.Lock()
					if tr.url() == u && (tr.mode == "hang" || tr.mode == "hang-stopped") {
						expected++
					}
					tr.mu.Unlock()
				}
			}
			hungStopped := 0
			for _, tr := range w.trackers {
				tr.mu.Lock()
				hungStopped += tr.hungStopped
				tr.mu.Unlock()
			}
			if expected == 0 || hungStopped < expected {
				busy = true
			}
		}
		for i, an := range t.announcers {
			st := an.Stats().Status
			hung := 0
			if i < len(w.trackers) {
				// (a stopped announce of the previous run may still be parked there: it does not count)
				w.trackers[i].mu.Lock()
				hung = w.trackers[i].hung - w.trackers[i].hungStopped
				w.trackers[i].mu.Unlock()
			}
			if st == announcer.NotContactedYet || (st == announcer.Contacting && hung == 0) {
				busy = true
			}
		}
		w.sinkMu.Lock()
		held := w.holdOpen
		w.sinkMu.Unlock()
		// outgoing handshakes to the hold sink stay pending by design; anything else is still in motion
		if len(t.incomingHandshakers) > 0 || len(t.outgoingHandshakers) != held {
			busy = true
		}
		if !busy && (stable == 0 || sig == lastSig) {
			stable++
			if stable >= 2 {
				return nil
			}
		} else if !busy {
			stable = 1
		} else {
			stable = 0
		}
		lastSig = sig
		if time.Now().After(deadline) {
			return errors.New("unsettled")
		}
		time.Sleep(200 * time.Microsecond)
	}
}

// flushPeers makes sure everything the loop queued for every live peer has been written to its connection.
func (w *VerifWorld) flushPeers() {
	for _, p := range w.peers {
		if p.pe == nil || p.conn.isClosed() {
			continue
		}
		select {
		case <-p.pe.Done():
			continue
		default:
		}
		p.sents++
		want := p.sents
		p.pe.SendMessage(peerprotocol.HaveMessage{Index: verifSentinelIndex})
		deadline := time.Now().Add(3 * time.Second)
		p.conn.mu.Lock()
		for p.conn.sentinel < want && !p.conn.closed && time.Now().Before(deadline) {
			p.conn.mu.Unlock()
			time.Sleep(100 * time.Microsecond)
			p.conn.mu.Lock()
		}
		if p.conn.sentinel < want {
			p.sents = p.conn.sentinel // connection closed meanwhile
		}
		p.conn.mu.Unlock()
	}
}

func (w *VerifWorld) peerKeys() []int {
	var ks []int
	for k := range w.peers {
		ks = append(ks, k)
	}
	sort.Ints(ks)
	return ks
}

// observe renders the white-box projection of the torrent state plus everything sent / stored since the
// previous observation. Only called when the loop is quiescent (after settle), so the reads are ordered
// after the loop's writes by the Stats round trip.
func (w *VerifWorld) observe() string {
	st, err := w.barrier()
	if err != nil {
		return "hang"
	}
	w.flushPeers()
	t := w.t
	var sb strings.Builder
	fmt.Fprintf(&sb, "st=%s", strings.ReplaceAll(st.Status.String(), " ", ""))
	if st.Error != nil {
		fmt.Fprintf(&sb, " err=%s", verifErrClass(st.Error))
	}
	bf := "-"
	if t.bitfield != nil {
		var bs []byte
		for i := uint32(0); i < t.bitfield.Len(); i++ {
			if t.bitfield.Test(i) {
				bs = append(bs, '1')
			} else {
				bs = append(bs, '0')
			}
		}
		bf = string(bs)
	}
	fmt.Fprintf(&sb, " bf=%s", bf)
	done, wr := "-", "-"
	if t.pieces != nil {
		var ds, ws []byte
		for i := range t.pieces {
			ds = append(ds, map[bool]byte{true: '1', false: '0'}[t.pieces[i].Done])
			ws = append(ws, map[bool]byte{true: '1', false: '0'}[t.pieces[i].Writing])
		}
		done, wr = string(ds), string(ws)
	}
	fmt.Fprintf(&sb, " done=%s wr=%s", done, wr)
	fmt.Fprintf(&sb, " completed=%v", map[bool]int{true: 1, false: 0}[t.completed])
	compl := 0
	select {
	case <-t.completeC:
		compl = 1
	default:
	}
	fmt.Fprintf(&sb, " completeC=%d", compl)
	fmt.Fprintf(&sb, " have=%d missing=%d bytes=%d", st.Pieces.Have, st.Pieces.Missing, st.Bytes.Completed)
	// downloads
	var dls []string
	for _, k := range w.peerKeys() {
		p := w.peers[k]
		if p.pe == nil {
			continue
		}
		if pd, ok := t.pieceDownloaders[p.pe]; ok {
			flag := ""
			if _, ok := t.pieceDownloadersChoked[p.pe]; ok {
				flag += "c"
			}
			if _, ok := t.pieceDownloadersSnubbed[p.pe]; ok {
				flag += "s"
			}
			if pd.AllowedFast {
				flag += "f"
			}
			dls = append(dls, fmt.Sprintf("%d:%d%s", k, pd.Piece.Index, flag))
		}
	}
	fmt.Fprintf(&sb, " dl=%s", verifJoin(dls))
	var ids []string
	for _, k := range w.peerKeys() {
		p := w.peers[k]
		if p.pe != nil {
			if _, ok := t.infoDownloaders[p.pe]; ok {
				ids = append(ids, strconv.Itoa(k))
			}
		}
	}
	fmt.Fprintf(&sb, " idl=%s", verifJoin(ids))
	var live []string
	for _, k := range w.peerKeys() {
		p := w.peers[k]
		if p.pe != nil {
			if _, ok := t.peers[p.pe]; ok {
				live = append(live, strconv.Itoa(k))
			}
		}
	}
	fmt.Fprintf(&sb, " peers=%s npeers=%d", verifJoin(live), len(t.peers))
	var pexon []string
	for _, k := range w.peerKeys() {
		if p := w.peers[k]; p.pe != nil && p.pe.PEX != nil {
			if _, ok := t.peers[p.pe]; ok {
				pexon = append(pexon, strconv.Itoa(k))
			}
		}
	}
	fmt.Fprintf(&sb, " pexon=%s", verifJoin(pexon))
	var banned []string
	for ip := range t.bannedPeerIPs {
		banned = append(banned, ip)
	}
	sort.Strings(banned)
	fmt.Fprintf(&sb, " banned=%s", verifJoin(banned))
	var cips []string
	for ip := range t.connectedPeerIPs {
		cips = append(cips, ip)
	}
	sort.Strings(cips)
	fmt.Fprintf(&sb, " cips=%s", verifJoin(cips))
	fmt.Fprintf(&sb, " hs=%d/%d", len(t.incomingHandshakers), len(t.outgoingHandshakers))
	w.sinkMu.Lock()
	fmt.Fprintf(&sb, " dials=%d addrs=%d", w.sinkDials, st.Addresses.Total)
	w.sinkMu.Unlock()
	fmt.Fprintf(&sb, " info=%d", map[bool]int{true: 1, false: 0}[t.info != nil])
	w.sto.mu.Lock()
	fmt.Fprintf(&sb, " open=%d", w.sto.opened-w.sto.closed)
	w.sto.mu.Unlock()
	fmt.Fprintf(&sb, " workers=%s", verifJoin(w.workers()))
	if t.session.dht != nil {
		fmt.Fprintf(&sb, " dhtann=%d", map[bool]int{true: 1, false: 0}[t.dhtAnnouncer != nil])
		// is the torrent waiting for the session's next DHT tick, which announces it to the DHT?
		t.session.mPeerRequests.Lock()
		_, queued := t.session.dhtPeerRequests[t]
		t.session.mPeerRequests.Unlock()
		if queued {
			sb.WriteString(" dhtreq=1")
		}
	}
	fmt.Fprintf(&sb, " susp=%d", map[bool]int{true: 1, false: 0}[t.pieceMessagesC.VerifSuspended()])
	if t.session.ram != nil {
		rs := t.session.ram.Stats()
		fmt.Fprintf(&sb, " ram=%d/%d", rs.AllocatedObjects, rs.AllocatedSize)
	}
	fmt.Fprintf(&sb, " wasted=%d", st.Bytes.Wasted)
	// messages per peer
	for _, k := range w.peerKeys() {
		p := w.peers[k]
		ms := p.conn.drain()
		if len(ms) > 0 {
			fmt.Fprintf(&sb, " p%d=%s", k, strings.Join(ms, ","))
		}
	}
	if len(w.trackers) > 0 {
		var anns []string
		for _, tr := range w.trackers {
			tr.mu.Lock()
			anns = append(anns, tr.log...)
			tr.log = nil
			tr.mu.Unlock()
		}
		sort.Strings(anns)
		if len(anns) > 0 {
			fmt.Fprintf(&sb, " ann=%s", strings.Join(anns, ","))
		}
	}
	if sl := w.sto.drain(); len(sl) > 0 {
		fmt.Fprintf(&sb, " sto=%s", strings.Join(sl, ","))
	}
	w.observeWs(&sb)
	return sb.String()
}

func (w *VerifWorld) workers() []string {
	var ws []string
	t := w.t
	if t.allocator != nil {
		ws = append(ws, "alloc")
	}
	if t.verifier != nil {
		ws = append(ws, "verify")
	}
	if t.stoppedEventAnnouncer != nil {
		ws = append(ws, "stopann")
	}
	if len(t.announcers) > 0 {
		ws = append(ws, fmt.Sprintf("ann%d", len(t.announcers)))
	}
	if t.acceptor != nil {
		ws = append(ws, "acceptor")
	}
	return ws
}

func verifJoin(xs []string) string {
	if len(xs) == 0 {
		return "-"
	}
	return strings.Join(xs, ",")
}

// Op executes one operation and returns the observation.
func (w *VerifWorld) Op(op string) string {
	if w.dead {
		return "dead"
	}
	if w.gone {
		return "gone"
	}
	name, m := verifKV(op)
	switch name {
	case "start":
		if !w.call(func() { _ = w.tor.Start() }) {
			return "hang"
		}
	case "stop":
		if !w.call(func() { _ = w.tor.Stop() }) {
			return "hang"
		}
		if m["hold"] != "1" { // hold=1: the storage gates stay as they are
			w.autoRelease()
		}
	case "verify":
		if !w.call(func() { _ = w.tor.Verify() }) {
			return "hang"
		}
		if m["hold"] != "1" {
			w.autoRelease()
		}
	case "diskcheck":
		// settle first, then compare the storage with the ground truth
		o := w.observeAfterSettle()
		v := "bad"
		if w.VerifDiskMatchesTruth() {
			v = "ok"
		}
		return "disk=" + v + " " + o
	case "announce":
		if !w.call(func() { w.tor.Announce() }) {
			return "hang"
		}
	case "trk":
		for _, tr := range w.trackers {
			if m["i"] != "" && verifAtoi(m["i"], -1) != tr.idx {
				continue
			}
			tr.mu.Lock()
			if m["mode"] != "" {
				tr.mode = m["mode"]
			}
			if m["release"] == "1" {
				close(tr.release)
				tr.release = make(chan struct{})
			}
			tr.mu.Unlock()
		}
	case "waitstop":
		// the stop announcer gives up after TrackerStopTimeout at the latest
		deadline := time.Now().Add(3 * time.Second)
		for time.Now().Before(deadline) {
			if _, err := w.barrier(); err != nil {
				return "hang"
			}
			if w.t.stoppedEventAnnouncer == nil {
				break
			}
			time.Sleep(5 * time.Millisecond)
		}
	case "persist":
		// the periodic resume writer firing now (Session.updateStatsLoop -> updateStats)
		if !w.call(func() { w.sess.updateStats() }) {
			return "hang"
		}
	case "crashcheck":
		o := w.observeAfterSettle()
		return "crash=" + w.crashCheck(m) + " " + o
	case "dialhold":
		// addresses of peers that accept the connection and never answer the handshake (distinct loopback IPs)
		if w.holdSink == nil {
			ln, err := net.Listen("tcp4", "0.0.0.0:0")
			if err != nil {
				return "bad-op:listen"
			}
			w.holdSink = ln
			go func() {
				for {
					c, err := ln.Accept()
					if err != nil {
						return
					}
					w.sinkMu.Lock()
					w.sinkDials++
					w.holdOpen++
					w.holdConns = append(w.holdConns, c)
					w.sinkMu.Unlock()
					go func(c net.Conn) {
						buf := make([]byte, 4096)
						for {
							if _, err := c.Read(buf); err != nil {
								break
							}
						}
						w.sinkMu.Lock()
						w.holdOpen--
						w.sinkMu.Unlock()
						c.Close()
					}(c)
				}
			}()
		}
		port := w.holdSink.Addr().(*net.TCPAddr).Port
		var addrs []*net.TCPAddr
		for i := 0; i < verifAtoi(m["n"], 1); i++ {
			w.holdNext++
			addrs = append(addrs, &net.TCPAddr{IP: net.IPv4(127, 0, 1, byte(w.holdNext)), Port: port})
		}
		if !w.call(func() { w.t.AddPeers(addrs) }) {
			return "hang"
		}
	case "addtracker":
		// a new in-process tracker (its own tier) added to the live torrent
		var ln net.Listener
		var held []net.Listener
		for {
			l, err := net.Listen("tcp4", "127.0.0.1:0")
			if err != nil {
				return "bad-op:listen"
			}
			// never the port the torrent itself listens on (free while the torrent is stopped)
			if l.Addr().(*net.TCPAddr).Port == int(w.sess.config.PortBegin) {
				held = append(held, l)
				continue
			}
			ln = l
			break
		}
		for _, l := range held {
			l.Close()
		}
		tr := &verifTracker{idx: len(w.trackers), ln: ln, mode: "ok", release: make(chan struct{}), w: w}
		tr.srv = &http.Server{Handler: tr}
		go tr.srv.Serve(ln) // nolint
		w.trackers = append(w.trackers, tr)
		done := make(chan error, 1)
		go func() { done <- w.tor.AddTracker(tr.url()) }()
		select {
		case err := <-done:
			if err != nil {
				return "error:addtracker " + w.observeAfterSettle()
			}
		case <-time.After(verifLoopPatience):
			w.dead = true
			return "hang"
		}
	case "reload":
		o := w.observeAfterSettle()
		return "reload=" + w.reloadCheck() + " " + o
	case "magnet":
		if m["gone"] == "1" {
			// the handle is kept across the removal of the torrent (an RPC call racing with RemoveTorrent): what it
			// exports then is judged like any other export. Nothing else can be observed afterwards.
			done := make(chan struct{})
			go func() { _ = w.sess.RemoveTorrent(w.tor.ID(), true); close(done) }()
			select {
			case <-done:
			case <-time.After(10 * time.Second):
				w.dead = true
				return "hang"
			}
			w.gone = true
			_, err := w.tor.Magnet()
			if err != nil {
				return "magnet=refused"
			}
			return "magnet=ok"
		}
		_, err := w.tor.Magnet()
		v := "ok"
		if err != nil {
			v = "refused"
		}
		return "magnet=" + v + " " + w.observeAfterSettle()
	case "obs":
	case "gate":
		w.sto.mu.Lock()
		on := m["on"] != "0"
		switch m["kind"] {
		case "open":
			w.sto.gateOpen = on
		case "write":
			w.sto.gateWrite = on
		case "read":
			w.sto.gateRead = on
		case "failwrite":
			w.sto.failWrite = on
		case "failopen":
			w.sto.failOpen = on
			w.sto.failOpenName = ""
			if at, ok := m["at"]; ok {
				// the at-th data file (padding files are never opened)
				j := -1
				for i := range w.flens {
					if w.fpads[i] {
						continue
					}
					j++
					if j == verifAtoi(at, 0) {
						w.sto.failOpenName = w.fileName(i)
					}
				}
				if w.sto.failOpenName == "" {
					w.sto.failOpenName = "\x00none" // beyond the last data file: no Open fails
				}
			}
		case "writedone":
			w.sto.gateWriteDone = on
		}
		w.sto.release.Broadcast()
		w.sto.mu.Unlock()
		w.waitGatesPassed()
	case "mutate":
		// external change of the files while the torrent is stopped
		if len(w.t.files) != 0 || w.t.errC != nil {
			return "skipped:not-stopped " + w.observeAfterSettle()
		}
		w.sto.mu.Lock()
		fname := w.fileName(verifAtoi(m["file"], 0))
		for n, f := range w.sto.files {
			if m["file"] != "all" && n != fname {
				continue
			}
			switch m["how"] {
			case "delete":
				f.exists = false
				f.data = nil
			case "corrupt":
				off := verifAtoi(m["off"], 0)
				if off < len(f.data) {
					// always a byte that differs from the true content (flipping the current byte would undo an
					// earlier corruption at the same offset)
					tb := byte(0)
					pos := 0
					for i, l := range w.flens {
						if w.fileName(i) == n && !w.fpads[i] && off < l {
							tb = w.content[pos+off]
						}
						pos += l
					}
					f.data[off] = tb ^ 0xFF
				}
			case "fill":
				// write the true content (as if another client completed it)
				w.fillTruth(n, f)
			}
		}
		w.sto.mu.Unlock()
	case "peer":
		return w.opPeer(m)
	case "msg":
		return w.opMsg(m)
	case "snubclose":
		// The peer's own snub timer fires while the loop is busy, so that its report is pending; the connection
		// ends at the same time. When the loop is free again it finds both events: whichever it takes first, the
		// peer must end up closed and the loop must go on.
		p := w.peers[verifAtoi(m["p"], -1)]
		if p == nil || p.pe == nil {
			return "skipped:no-peer"
		}
		if p.pe.Closed {
			return "skipped:peer-closed " + w.observeAfterSettle()
		}
		hold := make(chan Stats) // unbuffered: the loop blocks in its answer until it is taken
		select {
		case w.t.statsCommandC <- statsRequest{Response: hold}:
		case <-time.After(verifLoopPatience):
			w.dead = true
			return "hang"
		}
		p.pe.VerifFireSnubTimer()
		time.Sleep(2 * time.Millisecond) // the peer's goroutine is now blocked handing over its report
		sent := make(chan struct{})
		go func() {
			select {
			case w.t.peerDisconnectedC <- p.pe:
			case <-time.After(verifLoopPatience):
			}
			close(sent)
		}()
		time.Sleep(time.Millisecond)
		<-hold // the loop is free again
		<-sent
	case "disconnect":
		p := w.peers[verifAtoi(m["p"], -1)]
		if p == nil || p.pe == nil {
			return "skipped:no-peer"
		}
		if p.pe.Closed {
			return "skipped:peer-closed " + w.observeAfterSettle()
		}
		select {
		case w.t.peerDisconnectedC <- p.pe:
		case <-time.After(verifLoopPatience):
			w.dead = true
			return "hang"
		}
	case "snub":
		p := w.peers[verifAtoi(m["p"], -1)]
		if p == nil || p.pe == nil {
			return "skipped:no-peer"
		}
		if p.pe.Closed {
			return "skipped:peer-closed " + w.observeAfterSettle()
		}
		select {
		case w.t.peerSnubbedC <- p.pe:
		case <-time.After(verifLoopPatience):
			w.dead = true
			return "hang"
		}
	case "dhtpeers":
		// a DHT lookup result for this info hash (delivered by Session.processDHTResults to every torrent
		// of the session with that info hash)
		var addrs []*net.TCPAddr
		for _, a := range strings.Split(strings.ReplaceAll(m["addrs"], "@", w.sinkAddr.String()), "+") {
			if ta, err := net.ResolveTCPAddr("tcp4", a); err == nil {
				addrs = append(addrs, ta)
			}
		}
		select {
		case w.t.dhtPeersC <- addrs:
		default:
			return "skipped:dht-channel-full " + w.observeAfterSettle()
		}
	case "addpeers":
		var addrs []*net.TCPAddr
		for _, a := range strings.Split(strings.ReplaceAll(m["addrs"], "@", w.sinkAddr.String()), ",") {
			ta, err := net.ResolveTCPAddr("tcp4", a)
			if err == nil {
				addrs = append(addrs, ta)
			}
		}
		if !w.call(func() { w.t.AddPeers(addrs) }) {
			return "hang"
		}
	default:
		if o, ok := w.opWs(name, m); ok {
			return o
		}
		return "bad-op"
	}
	return w.observeAfterSettle()
}

func (w *VerifWorld) observeAfterSettle() string {
	if err := w.settle(); err != nil {
		if err == errVerifHang {
			return "hang"
		}
		return "unsettled " + w.observe()
	}
	return w.observe()
}

func (w *VerifWorld) fillTruth(name string, f *verifFileData) {
	off := 0
	for i, l := range w.flens {
		n := w.fileName(i)
		if n == name && !w.fpads[i] {
			f.exists = true
			f.data = append([]byte(nil), w.content[off:off+l]...)
		}
		off += l
	}
}

// opPeer: peer k=<n> [ip=a.b.c.d] [port=n] [fast=0|1] [ext=0|1] [dht=0|1] [ih=bad]
// An incoming connection that goes through the production admission and handshake code.
func (w *VerifWorld) opPeer(m map[string]string) string {
	k := verifAtoi(m["k"], len(w.peers)+1)
	if _, ok := w.peers[k]; ok {
		return "skipped:dup-peer"
	}
	if w.t.acceptor == nil {
		// connections reach the loop only through the acceptor, which runs while the torrent is started
		return "skipped:no-acceptor " + w.observeAfterSettle()
	}
	ip := m["ip"]
	if ip == "" {
		ip = fmt.Sprintf("10.0.%d.%d", k/250, k%250+1)
	}
	addr := &net.TCPAddr{IP: net.ParseIP(ip).To4(), Port: verifAtoi(m["port"], 40000+k)}
	c := newVerifConn(w, addr)
	p := &verifPeer{k: k, conn: c, fast: m["fast"] != "0", ext: m["ext"] != "0"}
	// the scripted peer's handshake
	var hs []byte
	hs = append(hs, 19)
	hs = append(hs, "BitTorrent protocol"...)
	var res [8]byte
	if p.ext {
		res[5] |= 0x10
	}
	if p.fast {
		res[7] |= 0x04
	}
	if m["dht"] == "1" {
		res[7] |= 0x01
	}
	hs = append(hs, res[:]...)
	ih := w.t.infoHash
	if m["ih"] == "bad" {
		ih[0] ^= 0xFF
	}
	hs = append(hs, ih[:]...)
	var pid [20]byte
	copy(pid[:], fmt.Sprintf("-VF0001-%012d", k))
	if m["pid"] != "" {
		copy(pid[:], fmt.Sprintf("-VF0001-%012d", verifAtoi(m["pid"], k)))
	}
	hs = append(hs, pid[:]...)
	c.in = hs
	w.peers[k] = p
	select {
	case w.t.incomingConnC <- c:
	case <-time.After(verifLoopPatience):
		w.dead = true
		return "hang"
	}
	if err := w.settle(); err != nil {
		if err == errVerifHang {
			return "hang"
		}
	}
	// find the peer object
	for pe := range w.t.peers {
		if pe.Conn.Addr() == addr {
			p.pe = pe
		}
	}
	res2 := "accepted"
	if p.pe != nil && len(c.hs) == 68 {
		switch {
		case strings.HasPrefix(string(c.hs[48:]), w.sess.config.PrivatePeerIDPrefix):
			res2 += " pid=priv"
		case strings.HasPrefix(string(c.hs[48:]), publicPeerIDPrefix):
			res2 += " pid=pub"
		default:
			res2 += " pid=other"
		}
	}
	if p.pe == nil {
		res2 = "refused"
		if c.isClosed() {
			res2 = "refused-closed"
		}
	}
	return res2 + " " + w.observe()
}

// opMsg injects one message from a connected peer, as the peer's reader goroutine would.
func (w *VerifWorld) opMsg(m map[string]string) string {
	p := w.peers[verifAtoi(m["p"], -1)]
	if p == nil || p.pe == nil {
		return "skipped:no-peer"
	}
	if p.pe.Closed {
		// the reader goroutine of a closed peer has exited: nothing can arrive from it
		return "skipped:peer-closed " + w.observeAfterSettle()
	}
	u := func(k string) uint32 {
		v, _ := strconv.ParseUint(m[k], 10, 32)
		return uint32(v)
	}
	req := peerprotocol.RequestMessage{Index: u("i"), Begin: u("b"), Length: u("l")}
	var msg any
	switch m["t"] {
	case "have":
		msg = peerprotocol.HaveMessage{Index: u("i")}
	case "bitfield":
		data := verifBits(m["bits"])
		if m["hex"] != "" {
			data = verifUnhex(m["hex"])
		}
		msg = peerprotocol.BitfieldMessage{Data: data}
	case "haveall":
		msg = peerprotocol.HaveAllMessage{}
	case "havenone":
		msg = peerprotocol.HaveNoneMessage{}
	case "allowedfast":
		msg = peerprotocol.AllowedFastMessage{HaveMessage: peerprotocol.HaveMessage{Index: u("i")}}
	case "choke":
		msg = peerprotocol.ChokeMessage{}
	case "unchoke":
		msg = peerprotocol.UnchokeMessage{}
	case "interested":
		msg = peerprotocol.InterestedMessage{}
	case "notinterested":
		msg = peerprotocol.NotInterestedMessage{}
	case "request":
		msg = req
	case "reject":
		msg = peerprotocol.RejectMessage{RequestMessage: req}
	case "cancel":
		msg = peerprotocol.CancelMessage{RequestMessage: req}
	case "port":
		msg = peerprotocol.PortMessage{Port: uint16(u("port"))}
	case "exths":
		mm := map[string]uint8{}
		for _, kvs := range strings.Split(m["m"], "+") {
			if i := strings.IndexByte(kvs, ':'); i > 0 {
				mm[kvs[:i]] = uint8(verifAtoi(kvs[i+1:], 0))
			}
		}
		size := verifAtoi(m["size"], 0)
		if m["size"] == "true" {
			size = len(w.infoBytes)
		}
		msg = peerprotocol.ExtensionHandshakeMessage{M: mm, V: "verif", MetadataSize: size, RequestQueue: verifAtoi(m["reqq"], 0)}
	case "metareq":
		msg = peerprotocol.ExtensionMetadataMessage{Type: peerprotocol.ExtensionMetadataMessageTypeRequest, Piece: u("i")}
	case "metareject":
		msg = peerprotocol.ExtensionMetadataMessage{Type: peerprotocol.ExtensionMetadataMessageTypeReject, Piece: u("i")}
	case "metadata":
		// data=true → the real info bytes of block i; data=flip → one byte flipped; len=<n> → n arbitrary bytes
		i := int(u("i"))
		var data []byte
		s, e := i*16384, (i+1)*16384
		if e > len(w.infoBytes) {
			e = len(w.infoBytes)
		}
		if s < e {
			data = append([]byte(nil), w.infoBytes[s:e]...)
		}
		switch {
		case m["data"] == "flip" && len(data) > 0:
			data[len(data)/2] ^= 0x55
		case m["len"] != "":
			data = bytes.Repeat([]byte{0xAB}, verifAtoi(m["len"], 0))
		}
		msg = peerprotocol.ExtensionMetadataMessage{Type: peerprotocol.ExtensionMetadataMessageTypeData, Piece: u("i"), TotalSize: len(w.infoBytes), Data: data}
	case "pex":
		msg = peerprotocol.ExtensionPEXMessage{Added: string(w.compact(m["added"])), Dropped: string(w.compact(m["dropped"]))}
	case "piece":
		return w.opPiece(p, m)
	default:
		return "bad-op"
	}
	if rq, ok := msg.(peerprotocol.RequestMessage); ok && rq.Length > 16384 {
		// the peer reader ends with an error for a request longer than 16 KiB: the message never reaches the loop,
		// the peer is reported as disconnected instead
		select {
		case w.t.peerDisconnectedC <- p.pe:
		case <-time.After(verifLoopPatience):
			w.dead = true
			return "hang"
		}
		return w.observeAfterSettle()
	}
	select {
	case w.t.messages <- peer.Message{Peer: p.pe, Message: msg}:
	case <-time.After(verifLoopPatience):
		w.dead = true
		return "hang"
	}
	return w.observeAfterSettle()
}

// opPiece: msg p=k t=piece i= b= l= data=true|flip|zero
func (w *VerifWorld) opPiece(p *verifPeer, m map[string]string) string {
	u := func(k string) uint32 {
		v, _ := strconv.ParseUint(m[k], 10, 32)
		return uint32(v)
	}
	i, b, l := u("i"), u("b"), u("l")
	if l > 16384 {
		return "skipped:reader-rejects-long-block " + w.observeAfterSettle()
	}
	buf := peerreader.VerifBlockBuffer(int(l))
	s := int(i)*w.pl + int(b)
	for j := 0; j < int(l); j++ {
		if s+j >= 0 && s+j < len(w.content) {
			buf.Data[j] = w.content[s+j]
		} else {
			buf.Data[j] = byte(j)
		}
	}
	switch m["data"] {
	case "flip":
		if l > 0 {
			buf.Data[l/2] ^= 0x5A
		}
	case "inv":
		for j := range buf.Data {
			buf.Data[j] ^= 0xFF
		}
	}
	pm := peer.PieceMessage{Peer: p.pe, Piece: peerreader.Piece{PieceMessage: peerprotocol.PieceMessage{Index: i, Begin: b}, Buffer: buf}}
	if w.t.pieceMessagesC.VerifSuspended() {
		// a write is in flight: production readers block here until the loop resumes the channel.
		// Only one message is parked at a time so that the delivery order after Resume is determined.
		w.deferredMu.Lock()
		nd := w.deferred
		w.deferredMu.Unlock()
		if nd > 0 || w.wsPending() > 0 {
			buf.Release()
			return "skipped:already-deferred " + w.observeAfterSettle()
		}
		w.deferredMu.Lock()
		w.deferred++
		w.deferredMu.Unlock()
		go func() {
			select {
			case w.t.pieceMessagesC.SendC() <- pm:
			case <-w.t.doneC:
			}
			w.deferredMu.Lock()
			w.deferred--
			w.deferredMu.Unlock()
		}()
		return "deferred " + w.observeAfterSettle()
	}
	select {
	case w.t.pieceMessagesC.SendC() <- pm:
	case <-time.After(verifLoopPatience):
		w.dead = true
		return "hang"
	}
	if m["hangup"] == "1" {
		// the peer hangs up right after the block: the disconnect is queued for the loop while the hash verdict
		// (and write) of a piece this block may have completed is still on its way; which of the two the loop
		// handles first is up to the scheduler, the resulting state must be the same
		select {
		case w.t.peerDisconnectedC <- p.pe:
		case <-time.After(verifLoopPatience):
			w.dead = true
			return "hang"
		}
		return "hungup " + w.observeAfterSettle()
	}
	return w.observeAfterSettle()
}

func verifBits(s string) []byte {
	b := make([]byte, (len(s)+7)/8)
	for i, c := range s {
		if c == '1' {
			b[i/8] |= 0x80 >> uint(i%8)
		}
	}
	return b
}

func verifUnhex(s string) []byte {
	b := make([]byte, len(s)/2)
	for i := range b {
		v, _ := strconv.ParseUint(s[2*i:2*i+2], 16, 8)
		b[i] = byte(v)
	}
	return b
}

// verifCompact: "1.2.3.4:80+5.6.7.8:90" → compact peers
func (w *VerifWorld) compact(s string) []byte {
	if w.sinkAddr != nil {
		s = strings.ReplaceAll(s, "@", w.sinkAddr.String())
	}
	return verifCompact(s)
}

func verifCompact(s string) []byte {
	var out []byte
	for _, a := range strings.Split(s, "+") {
		ta, err := net.ResolveTCPAddr("tcp4", a)
		if err != nil || ta.IP.To4() == nil {
			continue
		}
		out = append(out, ta.IP.To4()...)
		out = append(out, byte(ta.Port>>8), byte(ta.Port))
	}
	return out
}

// clone returns a deep copy of the storage contents (as the disk would be found after a crash now).
// padFilesOnDisk: how many files of the storage lie in a `.pad` directory (the harness names every padding file
// `.pad/<length>`); a padding file is never opened, created or written.
func (s *verifStorage) padFilesOnDisk() int {
	s.mu.Lock()
	defer s.mu.Unlock()
	n := 0
	for name := range s.files {
		if strings.Contains(name, ".pad/") {
			n++
		}
	}
	return n
}

func (s *verifStorage) clone() *verifStorage {
	s.mu.Lock()
	defer s.mu.Unlock()
	c := newVerifStorage()
	for n, f := range s.files {
		c.files[n] = &verifFileData{data: append([]byte(nil), f.data...), exists: f.exists}
	}
	return c
}

// crashCheck: the process dies now. A copy of the resume database (a consistent snapshot taken through a
// read transaction) and of the storage is opened by a fresh Session; optionally some files are missing.
// The restarted torrent is started and, once allocation / verification have finished, every piece it
// treats as downloaded must hold the true bytes in the copied storage.
func (w *VerifWorld) crashCheck(m map[string]string) string {
	dir, err := os.MkdirTemp("", "verifcrash")
	if err != nil {
		return "error:tmp"
	}
	defer os.RemoveAll(dir)
	dbPath := filepath.Join(dir, "session.db")
	err = w.sess.db.View(func(tx *bbolt.Tx) error { return tx.CopyFile(dbPath, 0o600) })
	if err != nil {
		return "error:dbcopy"
	}
	sto := w.sto.clone()
	if d := m["delete"]; d != "" {
		for i := range w.flens {
			if d == "all" || d == strconv.Itoa(i) {
				if f, ok := sto.files[w.fileName(i)]; ok {
					f.exists = false
					f.data = nil
				}
			}
		}
	}
	sto.truth = w.sto.truth
	sto.lastWrite = w.sto.lastWrite
	sto.firstWrite = w.sto.firstWrite
	cfg := w.sess.config
	cfg.Database = dbPath
	cfg.CustomStorage = sto
	cfg.ResumeOnStartup = false
	s2, err := NewSession(cfg)
	if err != nil {
		return "error:reopen:" + verifErrClass(err)
	}
	defer s2.Close()
	t2 := s2.GetTorrent(w.tor.ID())
	if t2 == nil {
		return "error:torrent-missing"
	}
	_ = t2.Start()
	deadline := time.Now().Add(8 * time.Second)
	for {
		st := t2.Stats()
		if st.Status != Allocating && st.Status != Verifying && st.Status != Stopped {
			break
		}
		if st.Status == Stopped && st.Error != nil {
			return "error:stopped:" + verifErrClass(st.Error)
		}
		if time.Now().After(deadline) {
			return "error:unsettled"
		}
		time.Sleep(time.Millisecond)
	}
	st := t2.Stats() // barrier
	_ = st
	tt := t2.torrent
	if n := sto.padFilesOnDisk(); n > 0 {
		// the restarted client has created (or opened) a BEP 47 padding file in its storage
		return fmt.Sprintf("padondisk:%d", n)
	}
	if tt.info == nil {
		return "ok" // metadata not known: nothing can be claimed
	}
	if tt.bitfield == nil {
		return "ok"
	}
	var bad []string
	sto.mu.Lock()
	for i := uint32(0); i < tt.bitfield.Len(); i++ {
		if tt.bitfield.Test(i) && !w.pieceOnDisk(sto, int(i)) {
			bad = append(bad, strconv.Itoa(int(i)))
		}
	}
	sto.mu.Unlock()
	if len(bad) > 0 {
		return "bad:" + strings.Join(bad, "+")
	}
	return "ok"
}

// reloadCheck opens a second session on a copy of the resume database (and of the storage), starts the torrent it
// loads and returns the announces the stub trackers receive from it: the identity a torrent announces with must
// survive a restart of the client.
func (w *VerifWorld) reloadCheck() string {
	if len(w.trackers) == 0 {
		return "-"
	}
	dir, err := os.MkdirTemp("", "verifreload")
	if err != nil {
		return "error:tmp"
	}
	defer os.RemoveAll(dir)
	dbPath := filepath.Join(dir, "session.db")
	if err = w.sess.db.View(func(tx *bbolt.Tx) error { return tx.CopyFile(dbPath, 0o600) }); err != nil {
		return "error:dbcopy"
	}
	sto := w.sto.clone()
	sto.truth = w.sto.truth
	sto.lastWrite = w.sto.lastWrite
	sto.firstWrite = w.sto.firstWrite
	cfg := w.sess.config
	cfg.Database = dbPath
	cfg.CustomStorage = sto
	cfg.ResumeOnStartup = false
	s2, err := NewSession(cfg)
	if err != nil {
		return "error:reopen:" + verifErrClass(err)
	}
	t2 := s2.GetTorrent(w.tor.ID())
	if t2 == nil {
		s2.Close()
		return "error:torrent-missing"
	}
	w.reloadMu.Lock()
	if w.reloadIDs == nil {
		w.reloadIDs = map[string]bool{}
	}
	w.reloadIDs[string(t2.torrent.peerID[:])] = true
	w.reloadMu.Unlock()
	for _, tr := range w.trackers {
		tr.mu.Lock()
		tr.rlog = nil
		tr.mu.Unlock()
	}
	_ = t2.Start()
	deadline := time.Now().Add(2 * time.Second)
	for time.Now().Before(deadline) {
		n := 0
		for _, tr := range w.trackers {
			tr.mu.Lock()
			n += len(tr.rlog)
			tr.mu.Unlock()
		}
		if n >= len(w.trackers) {
			break
		}
		time.Sleep(time.Millisecond)
	}
	s2.Close()
	var out []string
	for _, tr := range w.trackers {
		tr.mu.Lock()
		out = append(out, tr.rlog...)
		tr.rlog = nil
		tr.mu.Unlock()
	}
	sort.Strings(out)
	if len(out) == 0 {
		return "-"
	}
	return strings.Join(out, ",")
}

// paddingOnly: every byte of piece i belongs to a padding file.
func (w *VerifWorld) paddingOnly(i int) bool {
	start, end := i*w.pl, (i+1)*w.pl
	if end > len(w.content) {
		end = len(w.content)
	}
	pos := 0
	for fi, l := range w.flens {
		fs, fe := pos, pos+l
		pos = fe
		if max(fs, start) < min(fe, end) && !w.fpads[fi] {
			return false
		}
	}
	return true
}

// pieceOnDisk: the non-padding bytes of piece i in sto are the true bytes.
func (w *VerifWorld) pieceOnDisk(sto *verifStorage, i int) bool {
	start, end := i*w.pl, (i+1)*w.pl
	if end > len(w.content) {
		end = len(w.content)
	}
	pos := 0
	for fi, l := range w.flens {
		fs, fe := pos, pos+l
		pos = fe
		s, e := max(fs, start), min(fe, end)
		if s >= e || w.fpads[fi] {
			continue
		}
		f := sto.files[w.fileName(fi)]
		if f == nil || !f.exists || len(f.data) < e-fs || !bytes.Equal(f.data[s-fs:e-fs], w.content[s:e]) {
			return false
		}
	}
	return true
}

// VerifTruth exposes ground truth needed by suites (e.g. to script an honest seed).
func (w *VerifWorld) VerifTruth() (pieceLen, numPieces, total int) {
	return w.pl, w.nPieces, len(w.content)
}

// VerifFileBytes returns the current bytes of all non-padding files concatenated with padding as zeros,
// and whether each file exists (for end-state comparison with the ground truth).
func (w *VerifWorld) VerifDiskMatchesTruth() bool {
	w.sto.mu.Lock()
	defer w.sto.mu.Unlock()
	off := 0
	for i, l := range w.flens {
		if !w.fpads[i] {
			f := w.sto.files[w.fileName(i)]
			if f == nil || !f.exists || !bytes.Equal(f.data, w.content[off:off+l]) {
				return false
			}
		}
		off += l
	}
	return true
}
