//go:build verif

package torrent

import (
	"errors"
	"io"
	"net"
	"sort"
	"time"

	"github.com/cenkalti/rain/v2/internal/addrlist"
	"github.com/cenkalti/rain/v2/internal/blocklist"
	"github.com/cenkalti/rain/v2/internal/handshaker/incominghandshaker"
	"github.com/cenkalti/rain/v2/internal/handshaker/outgoinghandshaker"
	"github.com/cenkalti/rain/v2/internal/logger"
	"github.com/cenkalti/rain/v2/internal/peer"
	"github.com/cenkalti/rain/v2/internal/peersource"
)

// VerifAdmission drives the real dial/accept decision code (handleNewPeers, dialAddresses,
// handleNewConnection, handleOutgoingHandshakeDone, handleIncomingHandshakeDone) on a bare torrent value
// without a running event loop.  The handshaker goroutines the handlers start really run; they dial
// loopback addresses only (the suite uses 127.0.0.0/8 and closed ports) and are closed by Close().
type VerifAdmission struct {
	t *torrent
}

type verifAdmConn struct{ remote *net.TCPAddr }

func (c verifAdmConn) Read([]byte) (int, error)         { return 0, io.EOF }
func (c verifAdmConn) Write(b []byte) (int, error)      { return len(b), nil }
func (c verifAdmConn) Close() error                     { return nil }
func (c verifAdmConn) LocalAddr() net.Addr              { return &net.TCPAddr{IP: net.IPv4(127, 0, 0, 1), Port: 1} }
func (c verifAdmConn) RemoteAddr() net.Addr             { return c.remote }
func (c verifAdmConn) SetDeadline(time.Time) error      { return nil }
func (c verifAdmConn) SetReadDeadline(time.Time) error  { return nil }
func (c verifAdmConn) SetWriteDeadline(time.Time) error { return nil }

func VerifNewAdmission(maxDial, maxAccept, maxAddrs, port int, bl *blocklist.Blocklist, blIn, blOut bool, externalIP net.IP) *VerifAdmission {
	cfg := DefaultConfig
	cfg.MaxPeerDial = maxDial
	cfg.MaxPeerAccept = maxAccept
	cfg.MaxPeerAddresses = maxAddrs
	cfg.PeerConnectTimeout = 20 * time.Millisecond
	cfg.PeerHandshakeTimeout = 20 * time.Millisecond
	cfg.BlocklistEnabledForIncomingConnections = blIn
	cfg.BlocklistEnabledForOutgoingConnections = blOut
	s := &Session{config: cfg, blocklist: bl}
	t := &torrent{
		session:                   s,
		log:                       logger.New("verif"),
		errC:                      make(chan error, 1),
		peers:                     make(map[*peer.Peer]struct{}),
		incomingPeers:             make(map[*peer.Peer]struct{}),
		outgoingPeers:             make(map[*peer.Peer]struct{}),
		incomingHandshakers:       make(map[*incominghandshaker.IncomingHandshaker]struct{}),
		outgoingHandshakers:       make(map[*outgoinghandshaker.OutgoingHandshaker]struct{}),
		incomingHandshakerResultC: make(chan *incominghandshaker.IncomingHandshaker),
		outgoingHandshakerResultC: make(chan *outgoinghandshaker.OutgoingHandshaker),
		connectedPeerIPs:          make(map[string]struct{}),
		bannedPeerIPs:             make(map[string]struct{}),
		externalIP:                externalIP,
	}
	var blOutgoing *blocklist.Blocklist
	if blOut {
		blOutgoing = bl
	}
	t.addrList = addrlist.New(maxAddrs, blOutgoing, port, &t.externalIP)
	return &VerifAdmission{t: t}
}

func (v *VerifAdmission) Peers(addrs []*net.TCPAddr, src peersource.Source) { v.t.handleNewPeers(addrs, src) }

func (v *VerifAdmission) Accept(ip net.IP, port int) {
	v.t.handleNewConnection(verifAdmConn{remote: &net.TCPAddr{IP: ip, Port: port}})
}

// OutgoingFail ends the outgoing handshaker for addr with an error, as the event loop would on receiving it.
func (v *VerifAdmission) OutgoingFail(ip net.IP, port int) bool {
	for h := range v.t.outgoingHandshakers {
		if h.Addr.IP.Equal(ip) && h.Addr.Port == port {
			h.Close()
			h.Error = errors.New("verif: handshake failed")
			v.t.handleOutgoingHandshakeDone(h)
			return true
		}
	}
	return false
}

// IncomingFail ends the incoming handshaker of ip with an error.
func (v *VerifAdmission) IncomingFail(ip net.IP) bool {
	for h := range v.t.incomingHandshakers {
		if h.Conn.RemoteAddr().(*net.TCPAddr).IP.Equal(ip) {
			h.Close()
			h.Error = errors.New("verif: handshake failed")
			v.t.handleIncomingHandshakeDone(h)
			return true
		}
	}
	return false
}

// Ban records ip in bannedPeerIPs (the statement of handlePieceWriteDone for a corrupt piece).
func (v *VerifAdmission) Ban(ip net.IP) { v.t.bannedPeerIPs[ip.String()] = struct{}{} }

func (v *VerifAdmission) SetCompleted(b bool) { v.t.completed = b }

func (v *VerifAdmission) SetExternalIP(ip net.IP) { v.t.externalIP = ip }

func (v *VerifAdmission) ClientAddr() *net.TCPAddr { return v.t.addrList.VerifClientAddr() }

// Snapshot: outgoing addresses (sorted "ip:port"), incoming IPs, connected IPs (sorted), queue length.
func (v *VerifAdmission) Snapshot() (out []string, in []string, conn []string, qlen int) {
	for h := range v.t.outgoingHandshakers {
		out = append(out, h.Addr.String())
	}
	for h := range v.t.incomingHandshakers {
		in = append(in, h.Conn.RemoteAddr().(*net.TCPAddr).IP.String())
	}
	for ip := range v.t.connectedPeerIPs {
		conn = append(conn, ip)
	}
	sort.Strings(out)
	sort.Strings(in)
	sort.Strings(conn)
	return out, in, conn, v.t.addrList.Len()
}

// Close stops every handshaker goroutine started by the handlers.
func (v *VerifAdmission) Close() {
	for h := range v.t.outgoingHandshakers {
		h.Close()
	}
	for h := range v.t.incomingHandshakers {
		h.Close()
	}
}
