//go:build verif

package torrent

// Web seeds for the event-loop harness (suite wsloop; C17, C10, C01).
//
// `new … webseeds=<n>` puts n sources `http://ws<i>.verif/` into the url-list of the torrent and replaces the
// transport of the session's web seed client by an in-process stub: no socket is opened, the real
// urldownloader.URLDownloader goroutines of the torrent run against it. Every stub is scripted:
//
//   * a downloader that needs its source (the request itself, or the next read of the response body) is PARKED
//     until an op lets it pass — a stalled web seed is one that is not given an op;
//   * `ws i=<j> do=serve` lets source j deliver exactly one more piece with the true bytes, `do=lie` one piece with
//     wrong bytes, `do=fail` makes the gate it is parked at fail (HTTP 503 for a request, a read error for a body);
//   * `wsretry i=<j>` is the one-minute retry timer of notifyWebseedRetry firing now: the source is sent on
//     t.webseedRetryC exactly as that goroutine does. It is only possible while a retry is really due (the source
//     was disabled by a download error and that error has not been retried yet).
//
// The results travel on t.webseedPieceResultC like in production. While a piece write is in flight that channel is
// suspended; then at most one result (of a web seed or of a peer) is allowed to wait, so that the order in which
// the loop takes them after Resume is determined.

import (
	"context"
	"fmt"
	"io"
	"net/http"
	"strconv"
	"strings"
	"sync"
	"time"
)

type verifWsStub struct {
	idx      int
	mu       sync.Mutex
	cond     *sync.Cond
	credits  int  // pieces the source may still complete
	lie      bool // the piece being served carries wrong bytes
	failNext bool // the gate the downloader is parked at (or reaches next) fails
	phase    byte // '-' nothing, 'p' parked at a gate, 'g' passing, 'v' a result is on its way to the loop
	ctx      context.Context
	piece    int // piece the parked gate leads to / the piece of the result on its way
	steps    int // gates ever passed or failed (progress signature)
	// the download error whose retry has already been delivered
	retried error
}

type verifWsTransport struct{ w *VerifWorld }


// gate parks the calling downloader until the script lets it pass. ok=false: the request was cancelled.
func (st *verifWsStub) gate(ctx context.Context, piece int) (pass bool, fail bool) {
	stop := context.AfterFunc(ctx, func() {
		st.mu.Lock()
		st.cond.Broadcast()
		st.mu.Unlock()
	})
	defer stop()
	st.mu.Lock()
	defer st.mu.Unlock()
	if st.ctx != ctx {
		// a new downloader of this source: nothing granted to its predecessor is left over
		st.credits, st.lie, st.failNext = 0, false, false
	}
	st.phase, st.ctx, st.piece = 'p', ctx, piece
	for st.credits == 0 && !st.failNext && ctx.Err() == nil {
		st.cond.Wait()
	}
	st.steps++
	if ctx.Err() != nil {
		st.phase = '-'
		return false, false
	}
	if st.failNext {
		st.failNext = false
		st.phase = 'v' // the error result is on its way
		return false, true
	}
	st.phase = 'g'
	return true, false
}

func (tr *verifWsTransport) RoundTrip(req *http.Request) (*http.Response, error) {
	w := tr.w
	host := req.URL.Hostname()
	j, err := strconv.Atoi(strings.TrimSuffix(strings.TrimPrefix(host, "ws"), ".verif"))
	if err != nil || j < 0 || j >= len(w.stubs) {
		return nil, fmt.Errorf("verif: unknown web seed %q", host)
	}
	st := w.stubs[j]
	name := strings.TrimPrefix(req.URL.Path, "/")
	fi, g0 := -1, 0
	pos := 0
	for i, l := range w.flens {
		if w.fileName(i) == name && !w.fpads[i] {
			fi, g0 = i, pos
		}
		pos += l
	}
	var a, b int
	rng := strings.TrimPrefix(req.Header.Get("Range"), "bytes=")
	if k := strings.IndexByte(rng, '-'); k > 0 {
		a, _ = strconv.Atoi(rng[:k])
		b, _ = strconv.Atoi(rng[k+1:])
	}
	if fi < 0 || a < 0 || b < a || b >= w.flens[fi] {
		// a request the honest server cannot satisfy (never expected: the downloader asks for what the metainfo describes)
		return &http.Response{StatusCode: 404, Status: "404 Not Found", Body: io.NopCloser(strings.NewReader("")), Request: req, Header: http.Header{}}, nil
	}
	pass, fail := st.gate(req.Context(), (g0+a)/w.pl)
	if fail {
		return &http.Response{StatusCode: 503, Status: "503 Service Unavailable", Body: io.NopCloser(strings.NewReader("")), Request: req, Header: http.Header{}}, nil
	}
	if !pass {
		return nil, req.Context().Err()
	}
	body := &verifWsBody{w: w, st: st, ctx: req.Context(), pos: g0 + a, end: g0 + b + 1}
	return &http.Response{StatusCode: 206, Status: "206 Partial Content", Body: body, Request: req, Header: http.Header{},
		ContentLength: int64(b - a + 1)}, nil
}

type verifWsBody struct {
	w        *VerifWorld
	st       *verifWsStub
	ctx      context.Context
	pos, end int // global offsets into the content
}

// restIsPadding: every byte in [from, to) belongs to a padding file.
func (w *VerifWorld) restIsPadding(from, to int) bool {
	pos := 0
	for i, l := range w.flens {
		s, e := max(pos, from), min(pos+l, to)
		if s < e && !w.fpads[i] {
			return false
		}
		pos += l
	}
	return true
}

func (b *verifWsBody) Read(p []byte) (int, error) {
	if b.pos >= b.end {
		return 0, io.EOF
	}
	if len(p) == 0 {
		return 0, nil
	}
	w := b.w
	pi := b.pos / w.pl
	boundary := min((pi+1)*w.pl, len(w.content))
	n := min(len(p), b.end-b.pos, boundary-b.pos)
	// the read completes the piece if it reaches the end of the piece, or what is left of the piece is padding
	// (which the downloader fills in itself)
	completes := b.pos+n == boundary || (b.pos+n == b.end && w.restIsPadding(b.pos+n, boundary))
	pass, fail := b.st.gate(b.ctx, pi)
	if fail {
		// (a fresh error value every time: the harness tells download errors apart by identity)
		return 0, fmt.Errorf("verif: web seed read failed at %d", b.pos)
	}
	if !pass {
		return 0, b.ctx.Err()
	}
	copy(p[:n], w.content[b.pos:b.pos+n])
	b.st.mu.Lock()
	if b.st.lie {
		for i := 0; i < n; i++ {
			p[i] ^= 0xA5
		}
	}
	if completes {
		b.st.credits--
		b.st.lie = false
		b.st.phase = 'v'
		b.st.piece = pi
	}
	b.st.mu.Unlock()
	b.pos += n
	return n, nil
}

func (b *verifWsBody) Close() error { return nil }

// wsSetup is called by VerifNewWorld after the session exists.
func (w *VerifWorld) wsSetup(n int) []string {
	var urls []string
	for i := 0; i < n; i++ {
		st := &verifWsStub{idx: i, phase: '-'}
		st.cond = sync.NewCond(&st.mu)
		w.stubs = append(w.stubs, st)
		urls = append(urls, fmt.Sprintf("http://ws%d.verif/", i))
	}
	return urls
}

func (w *VerifWorld) wsSuspended() bool { return w.t.webseedPieceResultC.VerifSuspended() }

// wsLive: source j has a downloader (read after a barrier, like the other white-box reads of the harness).
func (w *VerifWorld) wsLive(j int) bool {
	return j < len(w.t.webseedSources) && w.t.webseedSources[j].Downloader != nil
}

// wsBusy: some live web seed downloader is neither parked (with nothing granted) nor waiting to hand its
// result to a loop whose result channel is suspended.
func (w *VerifWorld) wsBusy() bool {
	susp := w.wsSuspended()
	for j, st := range w.stubs {
		if !w.wsLive(j) {
			continue
		}
		st.mu.Lock()
		live := st.ctx != nil && st.ctx.Err() == nil
		quiet := live && ((st.phase == 'p' && st.credits == 0 && !st.failNext) || (st.phase == 'v' && susp))
		st.mu.Unlock()
		if !quiet {
			return true
		}
	}
	return false
}

func (w *VerifWorld) wsSteps() int {
	n := 0
	for _, st := range w.stubs {
		st.mu.Lock()
		n += st.steps
		st.mu.Unlock()
	}
	return n
}

// wsPending: results of web seed downloaders that wait for the suspended result channel.
func (w *VerifWorld) wsPending() int {
	n := 0
	for j, st := range w.stubs {
		if !w.wsLive(j) {
			continue
		}
		st.mu.Lock()
		if st.phase == 'v' && st.ctx != nil && st.ctx.Err() == nil {
			n++
		}
		st.mu.Unlock()
	}
	return n
}

// wsRetryDue: the source was disabled by a download error (disableSource with retry) and the retry that
// notifyWebseedRetry will deliver for that error has not been delivered by the script yet.
func (w *VerifWorld) wsRetryDue(j int) bool {
	if j >= len(w.t.webseedSources) {
		return false
	}
	src := w.t.webseedSources[j]
	if !src.Disabled || src.LastError == nil || src.LastError.Error() == "corrupt piece" {
		return false
	}
	return w.stubs[j].retried != src.LastError
}

// observeWs appends the web seed part of the observation (worlds without web seeds print nothing).
func (w *VerifWorld) observeWs(sb *strings.Builder) {
	if len(w.stubs) == 0 {
		return
	}
	t := w.t
	fmt.Fprintf(sb, " wscap=%d wsact=%d", t.session.config.WebseedMaxDownloads, t.webseedActiveDownloads)
	var ws, ph, due []string
	for j, src := range t.webseedSources {
		fl := ""
		if src.Downloader != nil {
			fl += "d"
		}
		if src.Disabled {
			fl += "x"
		}
		if fl == "" {
			fl = "-"
		}
		if src.Downloader != nil {
			ws = append(ws, fmt.Sprintf("%d:%s:%d-%d:%d", j, fl, src.Downloader.Begin, src.Downloader.End, src.Downloader.ReadCurrent()))
		} else {
			ws = append(ws, fmt.Sprintf("%d:%s:0-0:0", j, fl))
		}
		if j < len(w.stubs) {
			st := w.stubs[j]
			st.mu.Lock()
			p := "-"
			if src.Downloader != nil && st.ctx != nil && st.ctx.Err() == nil && (st.phase == 'p' || st.phase == 'v') {
				p = fmt.Sprintf("%c%d", st.phase, st.piece)
			}
			st.mu.Unlock()
			ph = append(ph, fmt.Sprintf("%d:%s", j, p))
			if w.wsRetryDue(j) {
				due = append(due, strconv.Itoa(j))
			}
		}
	}
	fmt.Fprintf(sb, " ws=%s wsp=%s wsr=%s", verifJoin(ws), verifJoin(ph), verifJoin(due))
	rw := "-"
	if t.piecePicker != nil && t.pieces != nil {
		bs := make([]byte, len(t.pieces))
		for i := range t.pieces {
			bs[i] = '.'
			if s := t.piecePicker.RequestedWebseedSource(uint32(i)); s != nil {
				bs[i] = '?'
				for j, src := range t.webseedSources {
					if src == s {
						bs[i] = "0123456789abcdefghijklmnopqrstuvwxyz"[j%36]
					}
				}
			}
		}
		rw = string(bs)
	}
	fmt.Fprintf(sb, " rw=%s", rw)
}

// opWs executes the web seed ops; handled=false: not one of them.
func (w *VerifWorld) opWs(name string, m map[string]string) (string, bool) {
	switch name {
	case "ws":
		j := verifAtoi(m["i"], -1)
		if j < 0 || j >= len(w.stubs) {
			return "skipped:no-source " + w.observeAfterSettle(), true
		}
		st := w.stubs[j]
		st.mu.Lock()
		parked := st.phase == 'p' && st.ctx != nil && st.ctx.Err() == nil && st.credits == 0 && !st.failNext
		st.mu.Unlock()
		if !w.wsLive(j) || !parked {
			return "skipped:not-parked " + w.observeAfterSettle(), true
		}
		lead := "ok"
		if w.wsSuspended() {
			// a write is in flight: the result will wait for the loop; only one result may wait at a time
			w.deferredMu.Lock()
			nd := w.deferred
			w.deferredMu.Unlock()
			if nd > 0 || w.wsPending() > 0 {
				return "skipped:already-deferred " + w.observeAfterSettle(), true
			}
			lead = "deferred"
		}
		st.mu.Lock()
		switch m["do"] {
		case "serve":
			st.credits = 1
		case "lie":
			st.credits, st.lie = 1, true
		case "fail":
			st.failNext = true
		default:
			st.mu.Unlock()
			return "bad-op", true
		}
		st.cond.Broadcast()
		st.mu.Unlock()
		return lead + " " + w.observeAfterSettle(), true
	case "wsretry":
		j := verifAtoi(m["i"], -1)
		if j < 0 || j >= len(w.stubs) || !w.wsRetryDue(j) {
			return "skipped:no-retry-due " + w.observeAfterSettle(), true
		}
		src := w.t.webseedSources[j]
		w.stubs[j].retried = src.LastError
		select {
		case w.t.webseedRetryC <- src:
		case <-time.After(5 * time.Second):
			w.dead = true
			return "hang", true
		}
		return "ok " + w.observeAfterSettle(), true
	}
	return "", false
}
