//go:build verif

package torrent

import (
	"archive/tar"
	"bytes"
	"encoding/json"
	"io"
	"mime/multipart"
	"net"
	"net/http/httptest"
	"time"

	"github.com/cenkalti/rain/v2/internal/resumer/boltdbresumer"
)

// VerifMoveInterrupted plays the sending side of a torrent move against the real handler of the receiving
// session: id, resume record (spec) and the first cut bytes of the tar stream arrive, then the stream stalls.
// It reports whether the receiving session's resume database holds a record for id at that moment (the instant a
// crash would freeze) and with how many bitfield bytes, then breaks the connection and reports the same after the
// handler has returned.
func VerifMoveInterrupted(s *Session, id string, spec *boltdbresumer.Spec, tarBytes []byte, cut int) (during, after int, status int) {
	pr, pw := io.Pipe()
	mw := multipart.NewWriter(pw)
	req := httptest.NewRequest("POST", "/move-torrent?id="+id, pr)
	req.Header.Set("Content-Type", mw.FormDataContentType())
	rec := httptest.NewRecorder()
	done := make(chan struct{})
	go func() {
		(&rpcHandler{session: s}).handleMoveTorrent(rec, req)
		close(done)
	}()
	fed := make(chan struct{})
	go func() {
		defer close(fed)
		iw, _ := mw.CreateFormField("id")
		_, _ = iw.Write([]byte(id))
		fw, _ := mw.CreateFormField("metadata")
		_ = json.NewEncoder(fw).Encode(spec)
		dw, _ := mw.CreateFormField("data")
		if cut > len(tarBytes) {
			cut = len(tarBytes)
		}
		_, _ = dw.Write(tarBytes[:cut])
	}()
	<-fed
	time.Sleep(20 * time.Millisecond) // the handler has consumed what was sent and waits for more
	probe := func() int {
		sp, err := s.resumer.Read(id)
		if err != nil || sp == nil {
			return -1
		}
		return len(sp.Bitfield)
	}
	during = probe()
	_ = pw.CloseWithError(io.ErrUnexpectedEOF) // the sender dies
	<-done
	after = probe()
	return during, after, rec.Code
}

// VerifTar builds the archive generateTar would produce for the given files (name -> content).
func VerifTar(names []string, contents [][]byte) []byte {
	var buf bytes.Buffer
	tw := tar.NewWriter(&buf)
	for i, n := range names {
		_ = tw.WriteHeader(&tar.Header{Name: n, Mode: 0600, Size: int64(len(contents[i]))})
		_, _ = tw.Write(contents[i])
	}
	_ = tw.Close()
	return buf.Bytes()
}

// VerifGenerateTar runs the real generateTar of the torrent (the sending side of a move) and returns the archive.
func VerifGenerateTar(t *Torrent) ([]byte, error) {
	pr, pw := io.Pipe()
	go t.generateTar(pw)
	return io.ReadAll(pr)
}

// VerifSessionDataDir is the directory the session's file storage uses for the torrent with this id.
func VerifSessionDataDir(s *Session, id string) string {
	if p, ok := s.storage.(*fileStorageProvider); ok {
		return p.getDataDir(id)
	}
	return ""
}

// VerifInjectIncoming hands a connection to the torrent as if its acceptor had accepted it.
func VerifInjectIncoming(t *Torrent, c net.Conn) bool {
	select {
	case t.torrent.incomingConnC <- c:
		return true
	case <-t.torrent.closeC:
		return false
	case <-time.After(time.Second):
		return false
	}
}
