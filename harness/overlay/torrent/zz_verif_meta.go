//go:build verif

package torrent

import (
	"io"
	"io/fs"

	"github.com/cenkalti/rain/v2/internal/metainfo"
)

// VerifReadData exposes readData (tar extraction of a moved torrent).
func VerifReadData(r io.Reader, dir string, perm fs.FileMode) error { return readData(r, dir, perm) }

// VerifDataDir exposes fileStorageProvider.getDataDir.
func VerifDataDir(dataDir, id string, includesID bool) string {
	p := &fileStorageProvider{DataDir: dataDir, DataDirIncludesTorrentID: includesID}
	return p.getDataDir(id)
}

// VerifParseMetaInfo runs Session.parseMetaInfo behind the same LimitReader as addTorrentStopped,
// on a Session value that carries nothing but the two limits (the method reads nothing else).
func VerifParseMetaInfo(r io.Reader, maxTorrentSize uint, maxPieces uint32) (*metainfo.MetaInfo, error) {
	s := &Session{config: Config{MaxTorrentSize: maxTorrentSize, MaxPieces: maxPieces}}
	r = io.LimitReader(r, int64(s.config.MaxTorrentSize))
	return s.parseMetaInfo(r)
}

// VerifParseInfo runs Session.parseInfo (resume data and peer-supplied info dictionaries).
func VerifParseInfo(b []byte, version int, maxPieces uint32) (*metainfo.Info, error) {
	s := &Session{config: Config{MaxPieces: maxPieces}}
	return s.parseInfo(b, version)
}
