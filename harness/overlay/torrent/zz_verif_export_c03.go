//go:build verif

package torrent

// VerifValidPieceRequest exposes the bounds check applied to a peer's request message (C03).
func VerifValidPieceRequest(begin, length, pieceLength uint32) bool {
	return validPieceRequest(begin, length, pieceLength)
}
