//go:build verif

package torrent

import (
	"reflect"

	"github.com/juju/ratelimit"
)

// VerifBucketParams exposes how NewSession configured the global rate-limit buckets:
// capacity, quantum and fill interval (ns) of the download and the upload bucket; ok=false when the
// bucket is nil (limit disabled).  Read-only; used by suite wscap (C17).
func (s *Session) VerifBucketParams() (dl, ul [3]int64, dlOK, ulOK bool) {
	read := func(b *ratelimit.Bucket) (p [3]int64, ok bool) {
		if b == nil {
			return p, false
		}
		v := reflect.ValueOf(b).Elem()
		return [3]int64{b.Capacity(), v.FieldByName("quantum").Int(), v.FieldByName("fillInterval").Int()}, true
	}
	dl, dlOK = read(s.bucketDownload)
	ul, ulOK = read(s.bucketUpload)
	return
}
